#![no_main]
use libfuzzer_sys::fuzz_target;

// generic target: VCHECK_FUZZ_PROP names the property; byte 0 selects one of its generator streams and
// the rest is the choice stream its own generator and oracle run on (see harness/src/fuzzing.rs)
fuzz_target!(|data: &[u8]| {
    vcheck::fuzzing::fuzz_entry("fz_prop", vcheck::fuzzing::env_prop(), data);
});

#![no_main]
use libfuzzer_sys::fuzz_target;
include!("common.rs");

// whole-program target: the bytes are a choice stream for the structured generators; the oracles of
// C01 (no panic), C03 (bounds), C05 (no phantom slots), C06 (no missed slots), C12 (entries inside the
// slot) and C18 (sizes) run on whatever program is built
fuzz_target!(|data: &[u8]| {
    if data.len() < 8 || data.len() > 4_000 {
        return;
    }
    vcheck::core::install_panic_hook_once();
    let cs = choices(data);
    let mut ch = vcheck::core::Chooser::new(&cs);
    let mut a = acc();
    let code: Vec<u8> = match ch.below(5) {
        0 => vcheck::gen::g_struct(&mut ch, 60).code(),
        1 => {
            let t = vcheck::idiom::gen_truth(&mut ch, 6);
            vcheck::asm::assemble(&vcheck::idiom::compile(&t, 0xa0b0_0000))
        }
        2 => vcheck::gen::g_loop(&mut ch).b.code(),
        3 => vcheck::props::c01::g_hostile_idiom(&mut ch).code(),
        _ => vcheck::gen::g_cf(&mut ch, &vcheck::gen::CfOpts { back_edges: true, faults: true, max_blocks: 7 }).b.code(),
    };
    let permissive = ch.chance(1, 3);
    let case = vcheck::props::c01::Case {
        bytes: code.clone(),
        cfg: vcheck::subj::VmCfg { permissive, ..Default::default() },
        gen: "fuzz",
        one_call: true,
        real_tc: false,
    };
    settle("C01", vcheck::props::c01::check_case(&case, &mut a));
    settle("C12", vcheck::props::c12::check_code(&code, permissive, true, &mut a));
    settle("C06", vcheck::props::c06::check_code(&code, permissive, true, &mut a));
    settle("C05", vcheck::props::c05::check_code(&code, "fuzz", true, &mut a));
    let limit = *ch.pick(&[2usize, 5, 30, 250]);
    settle(
        "C18",
        vcheck::props::c18::check_case(
            &vcheck::props::c18::Case { bytes: code.clone(), limit, kind: "fuzz".into(), expect_top_nodes: None },
            &mut a,
        ),
    );
    settle(
        "C03",
        vcheck::props::c03::check_case(
            &vcheck::props::c03::Case { bytes: code, cfg: vcheck::subj::VmCfg::generate(&mut ch), shape: "fuzz".into() },
            &mut a,
        ),
    );
});

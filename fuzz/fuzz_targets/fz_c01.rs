#![no_main]
use libfuzzer_sys::fuzz_target;
include!("common.rs");

// the first 32 bytes select the configuration and the API path, the rest is the contract code itself
fuzz_target!(|data: &[u8]| {
    if data.len() < 33 || data.len() > 2_000 {
        return;
    }
    vcheck::core::install_panic_hook_once();
    let cfg_choices = choices(&data[..32]);
    let mut ch = vcheck::core::Chooser::new(&cfg_choices);
    let cfg = vcheck::subj::VmCfg::generate(&mut ch);
    let case = vcheck::props::c01::Case {
        bytes: data[32..].to_vec(),
        cfg,
        gen: "fuzz",
        one_call: ch.chance(1, 4),
        real_tc: false,
    };
    let mut a = acc();
    settle("C01", vcheck::props::c01::check_case(&case, &mut a));
});

#![no_main]
use libfuzzer_sys::fuzz_target;

// C01: 32 bytes of configuration choices, then the contract code itself
fuzz_target!(|data: &[u8]| {
    vcheck::fuzzing::fuzz_entry("fz_c01", "C01", data);
});

// shared by the fuzz targets (included with `include!`)
use vcheck::core::{Acc, CaseResult, KnownFindings, Violation};

pub fn choices(data: &[u8]) -> Vec<u32> {
    data.chunks(4)
        .map(|c| {
            let mut b = [0u8; 4];
            b[..c.len()].copy_from_slice(c);
            u32::from_le_bytes(b)
        })
        .collect()
}

thread_local! {
    static KNOWN: KnownFindings = KnownFindings::load();
}

/// A violation that is not a listed known finding is saved as a replay file and aborts the target, so
/// that libFuzzer keeps the input; known findings are tolerated so that the campaign goes on.
pub fn settle(prop: &str, r: CaseResult) {
    if let CaseResult::Fail(v) = r {
        let known = KNOWN.with(|k| k.lookup(prop, &v.signature).is_some());
        if !known {
            let path = vcheck::core::save_found(prop, &Violation::new(v.signature.clone(), v.detail.clone(), v.case.clone()));
            eprintln!("VIOLATION property={prop} replay={}", path.display());
            eprintln!("  signature: {}", v.signature);
            std::process::abort();
        }
    }
}

pub fn acc() -> Acc {
    Acc::new()
}

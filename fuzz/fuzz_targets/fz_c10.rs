#![no_main]
use libfuzzer_sys::fuzz_target;
include!("common.rs");

fuzz_target!(|data: &[u8]| {
    if data.is_empty() || data.len() > 24_576 {
        return;
    }
    vcheck::core::install_panic_hook_once();
    let mut a = acc();
    settle("C10", vcheck::props::c10::check_bytes(data, &mut a));
});

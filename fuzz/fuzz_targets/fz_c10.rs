#![no_main]
use libfuzzer_sys::fuzz_target;

// C10: the input is the byte string handed to the disassembler
fuzz_target!(|data: &[u8]| {
    vcheck::fuzzing::fuzz_entry("fz_c10", "C10", data);
});

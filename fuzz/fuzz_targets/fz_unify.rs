#![no_main]
use libfuzzer_sys::fuzz_target;
include!("common.rs");

fuzz_target!(|data: &[u8]| {
    if data.len() < 4 || data.len() > 1_600 {
        return;
    }
    vcheck::core::install_panic_hook_once();
    let cs = choices(data);
    let mut ch = vcheck::core::Chooser::new(&cs);
    let set = vcheck::props::c14::gen_set(&mut ch);
    let mut a = acc();
    settle("C14", vcheck::props::c14::check_set(&set, &mut a));
});

#![no_main]
use libfuzzer_sys::fuzz_target;
include!("common.rs");

fuzz_target!(|data: &[u8]| {
    if data.len() < 4 || data.len() > 1_600 {
        return;
    }
    vcheck::core::install_panic_hook_once();
    let cs = choices(data);
    let mut ch = vcheck::core::Chooser::new(&cs);
    let e = vcheck::props::c09::gen_tree(&mut ch, 5);
    let mut a = acc();
    settle("C09", vcheck::props::c09::check_tree(&e, &mut a));
});

#!/usr/bin/env python3
"""Recompute the operation tuples dumped by `vcheck selftest` with Python integers.
The trusted base of every arithmetic oracle in the harness is therefore Python's int."""
import sys
M = 1 << 256
def s(x): return x - M if x >> 255 else x
def u(x): return x % M
def sdiv(a, b):
    if b == 0: return 0
    sa, sb = s(a), s(b)
    q = abs(sa) // abs(sb)
    return u(-q if (sa < 0) != (sb < 0) else q)
def smod(a, b):
    if b == 0: return 0
    sa, sb = s(a), s(b)
    r = abs(sa) % abs(sb)
    return u(-r if sa < 0 else r)
def signextend(b, x):
    if b >= 31: return x
    bit = 8 * b + 7
    mask = (1 << (bit + 1)) - 1
    return u(x | (M - 1 - mask)) if (x >> bit) & 1 else x & mask
def byte(i, x):
    return (x >> (8 * (31 - i))) & 0xff if i < 32 else 0
OPS = {
 'add': lambda a, b: u(a + b), 'sub': lambda a, b: u(a - b), 'mul': lambda a, b: u(a * b),
 'div': lambda a, b: 0 if b == 0 else a // b, 'sdiv': sdiv, 'mod': lambda a, b: 0 if b == 0 else a % b, 'smod': smod,
 'lt': lambda a, b: int(a < b), 'gt': lambda a, b: int(a > b), 'slt': lambda a, b: int(s(a) < s(b)), 'sgt': lambda a, b: int(s(a) > s(b)),
 'and': lambda a, b: a & b, 'or': lambda a, b: a | b, 'xor': lambda a, b: a ^ b, 'not': lambda a: M - 1 - a,
 'shl': lambda sh, v: u(v << sh) if sh < 256 else 0, 'shr': lambda sh, v: v >> sh if sh < 256 else 0,
 'sar': lambda sh, v: u(s(v) >> sh) if sh < 256 else (M - 1 if v >> 255 else 0),
 'signextend': signextend, 'byte': byte,
 'exp': lambda a, b: pow(a, b, M), 'addmod': lambda a, b, n: 0 if n == 0 else (a + b) % n, 'mulmod': lambda a, b, n: 0 if n == 0 else (a * b) % n,
}
KECCAK_VECTORS = {  # keccak256 of one 32-byte word
 0: 0x290decd9548b62a8d60345a988386fc84ba6bc95484008f6362f93160ef3e563,
 1: 0xb10e2d527612073b26eecdfd717e6a320cf44b4afac2b0732d9fcbe2b7fa0cf6,
}
def main(path):
    n = bad = 0
    for line in open(path):
        parts = line.rstrip('\n').split('\t')
        op, args, want = parts[0], [int(x, 16) for x in parts[1:-1]], int(parts[-1], 16)
        if op == 'keccak1':
            got = KECCAK_VECTORS[args[0]]
        else:
            got = OPS[op](*args)
        n += 1
        if got != want:
            bad += 1
            if bad <= 10:
                print('MISMATCH', op, [hex(a) for a in args], 'refword', hex(want), 'python', hex(got))
    print(f'refcheck: {n} tuples, {bad} mismatches')
    return 1 if bad or n == 0 else 0
if __name__ == '__main__':
    sys.exit(main(sys.argv[1]))

//! A small two-pass assembler: programs are built by construction from instruction lists, with
//! symbolic labels that are resolved to fixed-width PUSH2 targets.

use crate::refword::W;
use serde::{Deserialize, Serialize};

#[derive(Clone, Debug, PartialEq, Eq, Hash, Serialize, Deserialize)]
pub enum Ins {
    /// a plain one-byte opcode
    Op(u8),
    /// PUSHn with exactly these n bytes (1..=32)
    Push(Vec<u8>),
    /// PUSH2 <offset of label>; an undefined label assembles to 0xffff (out of range)
    PushLabel(usize),
    /// JUMPDEST that defines the label
    Label(usize),
    /// raw bytes (push data with 0x5b inside, unassigned bytes, ...)
    Raw(Vec<u8>),
    /// PUSHn <bytes>; defines the label at the offset of the first data byte
    PushData(usize, Vec<u8>),
    /// defines the label at the current offset without emitting anything
    Mark(usize),
    /// PUSH5 0x01_0000_<offset of label>: a target >= 2^32 whose low bits name the label
    PushLabelHigh(usize),
    /// PUSH32 (high + offset of label): a target with arbitrary high bits whose low bits name the label
    PushLabelPlus(usize, W),
    /// PUSH2 (offset of the first label - offset of the second label), for PC-relative targets
    PushLabelDiff(usize, usize),
}

pub const STOP: u8 = 0x00;
pub const ADD: u8 = 0x01;
pub const MUL: u8 = 0x02;
pub const SUB: u8 = 0x03;
pub const DIV: u8 = 0x04;
pub const SDIV: u8 = 0x05;
pub const EXP: u8 = 0x0a;
pub const SIGNEXTEND: u8 = 0x0b;
pub const XOR: u8 = 0x18;
pub const BYTE: u8 = 0x1a;
pub const SAR: u8 = 0x1d;
pub const BALANCE: u8 = 0x31;
pub const EXTCODESIZE: u8 = 0x3b;
pub const EXTCODEHASH: u8 = 0x3f;
pub const BLOCKHASH: u8 = 0x40;
pub const LT: u8 = 0x10;
pub const EQ: u8 = 0x14;
pub const ISZERO: u8 = 0x15;
pub const AND: u8 = 0x16;
pub const OR: u8 = 0x17;
pub const NOT: u8 = 0x19;
pub const SHL: u8 = 0x1b;
pub const SHR: u8 = 0x1c;
pub const SHA3: u8 = 0x20;
pub const CALLER: u8 = 0x33;
pub const CALLVALUE: u8 = 0x34;
pub const CALLDATALOAD: u8 = 0x35;
pub const CALLDATASIZE: u8 = 0x36;
pub const CALLDATACOPY: u8 = 0x37;
pub const CODESIZE: u8 = 0x38;
pub const CODECOPY: u8 = 0x39;
pub const EXTCODECOPY: u8 = 0x3c;
pub const RETURNDATACOPY: u8 = 0x3e;
pub const POP: u8 = 0x50;
pub const MLOAD: u8 = 0x51;
pub const MSTORE: u8 = 0x52;
pub const SLOAD: u8 = 0x54;
pub const SSTORE: u8 = 0x55;
pub const JUMP: u8 = 0x56;
pub const JUMPI: u8 = 0x57;
pub const PC: u8 = 0x58;
pub const JUMPDEST: u8 = 0x5b;
pub const PUSH0: u8 = 0x5f;
pub const DUP1: u8 = 0x80;
pub const SWAP1: u8 = 0x90;
pub const LOG0: u8 = 0xa0;
pub const CALL: u8 = 0xf1;
pub const RETURN: u8 = 0xf3;
pub const REVERT: u8 = 0xfd;
pub const INVALID: u8 = 0xfe;
pub const SELFDESTRUCT: u8 = 0xff;

/// minimal-width PUSH of a word (PUSH1 0x00 for zero)
pub fn push(w: W) -> Ins {
    let b = w.to_be_bytes();
    let n = w.byte_len().max(1);
    Ins::Push(b[32 - n..].to_vec())
}

/// PUSHn of a word with a chosen width (>= minimal)
pub fn push_n(w: W, n: usize) -> Ins {
    let n = n.clamp(w.byte_len().max(1), 32);
    Ins::Push(w.to_be_bytes()[32 - n..].to_vec())
}

pub fn push_u(v: u64) -> Ins {
    push(W::from_u64(v))
}

pub fn op(b: u8) -> Ins {
    Ins::Op(b)
}

pub fn size_of(i: &Ins) -> usize {
    match i {
        Ins::Op(_) | Ins::Label(_) => 1,
        Ins::Push(b) => 1 + b.len(),
        Ins::PushLabel(_) | Ins::PushLabelDiff(_, _) => 3,
        Ins::Raw(b) => b.len(),
        Ins::PushData(_, b) => 1 + b.len(),
        Ins::Mark(_) => 0,
        Ins::PushLabelHigh(_) => 6,
        Ins::PushLabelPlus(_, _) => 33,
    }
}

pub fn assemble(prog: &[Ins]) -> Vec<u8> {
    let mut labels = std::collections::HashMap::new();
    let mut off = 0usize;
    for i in prog {
        match i {
            Ins::Label(l) | Ins::Mark(l) => {
                labels.entry(*l).or_insert(off);
            }
            Ins::PushData(l, _) => {
                labels.entry(*l).or_insert(off + 1);
            }
            _ => {}
        }
        off += size_of(i);
    }
    let mut out = Vec::with_capacity(off);
    for i in prog {
        match i {
            Ins::Op(b) => out.push(*b),
            Ins::Push(b) => {
                debug_assert!(!b.is_empty() && b.len() <= 32);
                out.push(0x5f + b.len() as u8);
                out.extend_from_slice(b);
            }
            Ins::PushLabel(l) => {
                let t = labels.get(l).copied().unwrap_or(0xffff).min(0xffff);
                out.push(0x61);
                out.push((t >> 8) as u8);
                out.push(t as u8);
            }
            Ins::Label(_) => out.push(JUMPDEST),
            Ins::Raw(b) => out.extend_from_slice(b),
            Ins::PushData(_, b) => {
                out.push(0x5f + b.len() as u8);
                out.extend_from_slice(b);
            }
            Ins::Mark(_) => {}
            Ins::PushLabelHigh(l) => {
                let t = labels.get(l).copied().unwrap_or(0xffff).min(0xffff);
                out.extend_from_slice(&[0x64, 0x01, 0x00, 0x00, (t >> 8) as u8, t as u8]);
            }
            Ins::PushLabelDiff(a, b) => {
                let ta = labels.get(a).copied().unwrap_or(0xffff).min(0xffff);
                let tb = labels.get(b).copied().unwrap_or(0).min(0xffff);
                let d = ta.wrapping_sub(tb) & 0xffff;
                out.push(0x61);
                out.push((d >> 8) as u8);
                out.push(d as u8);
            }
            Ins::PushLabelPlus(l, high) => {
                let t = labels.get(l).copied().unwrap_or(0xffff).min(0xffff);
                out.push(0x7f);
                out.extend_from_slice(&high.add(W::from_u64(t as u64)).to_be_bytes());
            }
        }
    }
    out
}

/// offset of each instruction of `prog` in the assembled code
pub fn offsets(prog: &[Ins]) -> Vec<usize> {
    let mut v = Vec::with_capacity(prog.len());
    let mut off = 0;
    for i in prog {
        v.push(off);
        off += size_of(i);
    }
    v
}

pub fn label_offset(prog: &[Ins], label: usize) -> Option<usize> {
    let mut off = 0;
    for i in prog {
        match i {
            Ins::Label(l) | Ins::Mark(l) if *l == label => return Some(off),
            Ins::PushData(l, _) if *l == label => return Some(off + 1),
            _ => {}
        }
        off += size_of(i);
    }
    None
}

pub fn disasm(code: &[u8]) -> String {
    let mut s = String::new();
    let mut i = 0;
    while i < code.len() {
        let b = code[i];
        let n = crate::decode::push_len(b);
        if n > 0 {
            let end = (i + 1 + n).min(code.len());
            s.push_str(&format!("{i}:PUSH{n} 0x{} ", hex::encode(&code[i + 1..end])));
            i = end;
        } else {
            s.push_str(&format!("{i}:{b:02x} "));
            i += 1;
        }
    }
    s
}

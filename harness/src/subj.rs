//! Thin adapters over the subject's public API.

use crate::refword::W;
use bimap::BiMap;
use ethnum::U256;
use serde::{Deserialize, Serialize};
use std::{
    cell::Cell,
    rc::Rc,
    sync::{Arc, OnceLock, RwLock},
};
use storage_layout_extractor as sle;
use sle::{
    extractor::{
        chain::{version::EthereumVersion, Chain},
        contract::Contract,
    },
    tc::{
        self,
        lift::{
            dynamic_array_access::DynamicArrayIndex,
            mapping_index::MappingIndex,
            mapping_offset::MappingOffset,
            mul_shifted::MulShiftedValue,
            packed_encoding::PackedEncoding,
            proxy_slots::ProxySlots,
            recognise_hashed_slots::{StorageSlotHashes, SLOT_COUNT},
            storage_slots::StorageSlots,
            sub_word::SubWordValue,
            LiftingPasses,
        },
        rule::InferenceRules,
    },
    vm,
    vm::value::known::KnownWord,
    watchdog::{DynWatchdog, LazyWatchdog, Watchdog},
};

pub fn kw(w: W) -> KnownWord {
    KnownWord::from_be_bytes(w.to_be_bytes())
}
pub fn from_kw(k: &KnownWord) -> W {
    W::from_be_bytes(&k.bytes_be())
}
pub fn from_u256(u: U256) -> W {
    W::from_be_bytes(&u.to_be_bytes())
}
pub fn to_u256(w: W) -> U256 {
    U256::from_be_bytes(w.to_be_bytes())
}

pub fn contract(bytes: &[u8]) -> Contract {
    Contract::new(
        bytes.to_vec(),
        Chain::Ethereum {
            version: EthereumVersion::Shanghai,
        },
    )
}

// ------------------------------------------------------------------------------------------------
// VM configuration as data
// ------------------------------------------------------------------------------------------------

#[derive(Clone, Debug, PartialEq, Eq, Serialize, Deserialize)]
pub struct VmCfg {
    pub gas_limit:   usize,
    pub iterations:  usize,
    pub forks:       usize,
    pub value_size:  usize,
    pub memory_op:   usize,
    pub permissive:  bool,
}

impl Default for VmCfg {
    fn default() -> Self {
        let d = vm::Config::default();
        Self {
            gas_limit:  d.gas_limit,
            iterations: d.maximum_iterations_per_opcode,
            forks:      d.maximum_forks_per_fork_target,
            value_size: d.value_size_limit,
            memory_op:  d.single_memory_operation_size_limit,
            permissive: d.permissive_errors,
        }
    }
}

impl VmCfg {
    pub fn to_config(&self) -> vm::Config {
        vm::Config::default()
            .with_gas_limit(self.gas_limit)
            .with_max_iterations_per_opcode(self.iterations)
            .with_max_forks_per_fork_target(self.forks)
            .with_value_size_limit(self.value_size)
            .with_memory_max_bytes(self.memory_op)
            .with_permissive_errors(self.permissive)
    }
    pub fn is_default(&self) -> bool {
        *self == Self::default()
    }
    /// G-config: positive limits only
    pub fn generate(ch: &mut crate::core::Chooser) -> Self {
        let d = Self::default();
        if !ch.chance(2, 3) {
            return Self {
                permissive: ch.chance(1, 3),
                ..d
            };
        }
        Self {
            gas_limit:  *ch.pick(&[d.gas_limit, 300, 1000, 5000, 50_000, 1_000_000]),
            iterations: ch.range(1, 12),
            forks:      *ch.pick(&[d.forks, 1, 2, 3, 5, 10, 60]),
            value_size: *ch.pick(&[d.value_size, 1, 2, 3, 5, 10, 50, 1000]),
            memory_op:  *ch.pick(&[d.memory_op, 1, 31, 32, 33, 64, 1000]),
            permissive: ch.chance(1, 3),
        }
    }
}

// ------------------------------------------------------------------------------------------------
// Watchdogs
// ------------------------------------------------------------------------------------------------

/// Counts polls; answers "stop" from poll number `stop_at` on (0-based), never if `u64::MAX`.
#[derive(Debug)]
pub struct CountingWatchdog {
    pub polls:   Cell<u64>,
    pub stop_at: u64,
    pub every:   usize,
    /// polls observed after the first "stop" answer
    pub after_stop: Cell<u64>,
}

impl CountingWatchdog {
    pub fn new(every: usize, stop_at: u64) -> Rc<Self> {
        Rc::new(Self {
            polls: Cell::new(0),
            stop_at,
            every,
            after_stop: Cell::new(0),
        })
    }
    pub fn budget(budget: u64) -> Rc<Self> {
        Self::new(1, budget)
    }
    pub fn count(&self) -> u64 {
        self.polls.get()
    }
    pub fn fired(&self) -> bool {
        self.polls.get() > self.stop_at
    }
}

impl Watchdog for CountingWatchdog {
    fn should_stop(&self) -> bool {
        let n = self.polls.get();
        self.polls.set(n + 1);
        if n >= self.stop_at {
            if n > self.stop_at {
                self.after_stop.set(self.after_stop.get() + 1);
            }
            true
        } else {
            false
        }
    }
    fn poll_every(&self) -> usize {
        self.every
    }
}

pub fn dyn_wd(w: &Rc<CountingWatchdog>) -> DynWatchdog {
    w.clone()
}
pub fn lazy() -> DynWatchdog {
    LazyWatchdog.in_rc()
}

// ------------------------------------------------------------------------------------------------
// Type-checker configuration with a shared hash table (see DESIGN §1.4)
// ------------------------------------------------------------------------------------------------

type Table = Arc<RwLock<BiMap<U256, usize>>>;

fn shared_table() -> Table {
    static T: OnceLock<Table> = OnceLock::new();
    T.get_or_init(|| Arc::new(RwLock::new(StorageSlotHashes::make_hashes(SLOT_COUNT))))
        .clone()
}

fn strip_hashes(s: &str) -> (String, Vec<String>) {
    // split "StorageSlotHashes { hashes: ... }" payload from the pass list
    if let Some(i) = s.find("StorageSlotHashes") {
        let rest = &s[i..];
        let mut depth = 0i32;
        let mut end = rest.len();
        let mut seen = false;
        for (j, c) in rest.char_indices() {
            match c {
                '{' | '[' | '(' => {
                    depth += 1;
                    seen = true;
                }
                '}' | ']' | ')' => {
                    depth -= 1;
                    if seen && depth == 0 {
                        end = j + 1;
                        break;
                    }
                }
                _ => {}
            }
        }
        let payload = &rest[..end];
        // the entries print as "<hash> <> <index>"; keep only those pairs (the decoration around the
        // first and the last entry depends on the map's iteration order)
        let mut entries: Vec<String> = payload
            .split(',')
            .filter_map(|x| {
                let (l, r) = x.split_once("<>")?;
                let hash: String = l.chars().rev().skip_while(|c| !c.is_ascii_digit()).take_while(|c| c.is_ascii_digit()).collect::<String>().chars().rev().collect();
                let idx: String = r.chars().skip_while(|c| !c.is_ascii_digit()).take_while(|c| c.is_ascii_digit()).collect();
                Some(format!("{hash} <> {idx}"))
            })
            .collect();
        entries.sort();
        (format!("{}<H>{}", &s[..i], &rest[end..]), entries)
    } else {
        (s.to_string(), vec![])
    }
}

fn fast_passes() -> LiftingPasses {
    LiftingPasses::new(vec![
        StorageSlotHashes::new_with_hashes(shared_table()) as Box<dyn tc::lift::Lift>,
        ProxySlots::new(),
        MappingIndex::new(),
        SubWordValue::new(),
        MulShiftedValue::new(),
        PackedEncoding::new(),
        DynamicArrayIndex::new(),
        StorageSlots::new(),
        MappingOffset::new(),
    ])
}

/// true when our shared-table configuration is indistinguishable (by Debug) from the shipped one
pub fn fast_config_valid() -> bool {
    static V: OnceLock<bool> = OnceLock::new();
    *V.get_or_init(|| {
        let real = tc::Config::default();
        let fast = fast_passes();
        let a = strip_hashes(&format!("{:?}", real.lifting_passes));
        let b = strip_hashes(&format!("{:?}", fast));
        if std::env::var("VCHECK_DEBUG_TC").is_ok() {
            eprintln!("real: {}\nfast: {}\nentries equal: {} ({} vs {})", a.0, b.0, a.1 == b.1, a.1.len(), b.1.len());
            for (x, y) in a.1.iter().zip(b.1.iter()).filter(|(x, y)| x != y).take(3) {
                eprintln!("  {x}  !=  {y}");
            }
        }
        a == b
    })
}

/// The type-checker configuration: the real default, or (when `fast`, and only if validated)
/// the same passes over one shared hash table.
pub fn tc_config(fast: bool) -> tc::Config {
    if fast && fast_config_valid() {
        tc::Config {
            lifting_passes:  fast_passes(),
            inference_rules: InferenceRules::default(),
        }
    } else {
        tc::Config::default()
    }
}

// ------------------------------------------------------------------------------------------------
// Result summaries
// ------------------------------------------------------------------------------------------------

pub type Layout = sle::StorageLayout;

/// (kind, location) pairs of an error list, sorted — hash-order and payload independent
pub fn error_kinds(e: &sle::error::Errors) -> Vec<(String, u32)> {
    let mut v: Vec<(String, u32)> = e
        .payloads()
        .iter()
        .map(|l| (error_kind(&l.payload), l.location))
        .collect();
    v.sort();
    v
}

pub fn error_kind(e: &sle::error::Error) -> String {
    let s = format!("{e:?}");
    // "Execution(NoSuchStackFrame { depth: 0 })" -> "Execution(NoSuchStackFrame"
    let cut = s.find(|c| c == '{' || c == ',').unwrap_or(s.len());
    let head = s[..cut].trim().to_string();
    // second-level cut at the first space after the inner variant name
    match head.find('(') {
        Some(i) => {
            let inner = &head[i + 1..];
            let end = inner.find(|c: char| !(c.is_alphanumeric() || c == '_')).unwrap_or(inner.len());
            format!("{}::{}", &head[..i], &inner[..end])
        }
        None => head,
    }
}

pub fn exec_error_kind(e: &sle::error::execution::Error) -> String {
    let s = format!("{e:?}");
    let end = s.find(|c: char| !(c.is_alphanumeric() || c == '_')).unwrap_or(s.len());
    s[..end].to_string()
}

pub fn is_jump_target_kind(k: &str) -> bool {
    matches!(
        k,
        "InvalidOffsetForJump" | "InvalidJumpTarget" | "NonExistentJumpTarget" | "NoConcreteJumpDestination"
    )
}

pub fn layout_json(l: &Layout) -> serde_json::Value {
    serde_json::to_value(l.slots()).unwrap_or(serde_json::Value::Null)
}

/// One-call analysis.
pub fn analyze(bytes: &[u8], cfg: &VmCfg, fast_tc: bool, wd: DynWatchdog) -> Result<Layout, sle::error::Errors> {
    sle::new(contract(bytes), cfg.to_config(), tc_config(fast_tc), wd).analyze()
}

// ------------------------------------------------------------------------------------------------
// Direct VM runs
// ------------------------------------------------------------------------------------------------

pub struct VmRun {
    pub states:      Vec<vm::state::VMState>,
    pub errors:      Vec<(String, u32)>,
    pub failed:      bool,
    /// JUMPDEST offset -> number of times it was forked to
    pub fork_counts: std::collections::BTreeMap<usize, usize>,
    /// minimum gas per offset, from the instruction objects
    pub gas:         Vec<u64>,
    pub result:      sle::vm::ExecutionResult,
}

pub fn run_vm(code: &[u8], cfg: &VmCfg, wd: DynWatchdog) -> Result<VmRun, String> {
    use sle::disassembly::InstructionStream;
    let stream = InstructionStream::try_from(code).map_err(|e| format!("disassembly: {e:?}"))?;
    let thread = stream.new_thread(0).map_err(|e| format!("{e:?}"))?;
    let gas: Vec<u64> = (0..code.len())
        .map(|i| thread.instruction(i as u32).map(|o| o.min_gas_cost() as u64).unwrap_or(0))
        .collect();
    let mut machine = vm::VM::new(stream, cfg.to_config(), wd).map_err(|e| format!("VM::new: {e:?}"))?;
    let res = machine.execute();
    let states = machine.stored_states().to_vec();
    let mut fork_counts = std::collections::BTreeMap::new();
    for (i, b) in code.iter().enumerate() {
        if *b == 0x5b {
            if let Ok(c) = machine.jump_targets().cond_jump_count(i as u32) {
                if c > 0 {
                    fork_counts.insert(i, c);
                }
            }
        }
    }
    let (failed, errors) = match &res {
        Ok(()) => (false, vec![]),
        Err(e) => (
            true,
            e.payloads()
                .iter()
                .map(|l| (exec_error_kind(&l.payload), l.location))
                .collect(),
        ),
    };
    let result = machine.consume();
    Ok(VmRun {
        states,
        errors,
        failed,
        fork_counts,
        gas,
        result,
    })
}

/// minimum gas per offset, read from the subject's instruction objects
pub fn gas_table(code: &[u8]) -> Option<Vec<u64>> {
    use sle::disassembly::InstructionStream;
    let stream = InstructionStream::try_from(code).ok()?;
    let thread = stream.new_thread(0).ok()?;
    Some(
        (0..code.len())
            .map(|i| thread.instruction(i as u32).map(|o| o.min_gas_cost() as u64).unwrap_or(0))
            .collect(),
    )
}

//! C05 — no phantom slots: every reported slot comes from an executed storage access.

use crate::{
    asm,
    core::{drive, fnv64, guard, Acc, CaseResult, Chooser, ShardCtx, Tier, Violation},
    decode::{classify, Kind},
    eval::{to_e, E},
    evmref::{self, End, RefCfg},
    gen::{self, CfOpts, B},
    idiom,
    props::PropDef,
    refword::{keccak_words, W},
    subj::{self, CountingWatchdog, VmCfg},
};
use serde_json::{json, Value};
use std::{
    collections::{BTreeMap, BTreeSet, HashSet},
    sync::OnceLock,
};
use storage_layout_extractor::vm::value::{RuntimeBoxedVal, RSVD};

pub fn def() -> PropDef {
    PropDef {
        id: "C05",
        level: "exploration",
        rule: "(i) storage-free programs full of keccak(key . constant), keccak(constant)+i, pre-folded keccak constants, masks and \
               arithmetic whose results go to memory, logs, return data and calls; (ii) programs with real storage accesses \
               (idiom layouts, literal keys) mixed with the same look-alike hashing in stored VALUES and in non-storage code; \
               (iii) mutated real contracts. Oracle: let K be the key sub-trees of every SLoad / StorageWrite / \
               UnwrittenStorageValue node in the VM's collected values and A every value some sub-expression of some K evaluates \
               to (independent evaluator, with keccak over constant words), closed under 'c = keccak(i), i < 10000 => i'; every \
               slot index of an Ok layout is in A. Exact special case independent of the VM: no SLOAD/SSTORE byte at any \
               instruction boundary (reference decoder) => the layout is empty. distinct = hash of the bytecode; non-trivial = the \
               program contains a look-alike hash pattern outside a storage key",
        assumptions: &[
            "A over-approximates every derivation the tool documents (constant key, proxy-slot hash of constants, hash pre-image, constant addition / projection)",
        ],
        run_shard,
        replay,
        describe: None,
        health,
        exhaustive: None,
    }
}

fn health(acc: &Acc, _t: Tier) -> Vec<String> {
    crate::props::require_labels(
        acc,
        &[
            ("class:storage-free", 800),
            ("class:mixed", 800),
            ("class:mutreal", 100),
            ("class:call-clobber", 300),
            ("class:dead-storage", 300),
            ("reference-attribution-checked", 1000),
            ("lookalike:mapping-hash-in-value", 100),
            ("key:hash-of-text-and-symbolic-words", 100),
            ("key:hash-of-text-words", 50),
            ("lookalike:array-hash-in-value", 300),
            ("lookalike:prefolded-constant-in-value", 200),
            ("lookalike:to-memory/log/return/call", 500),
            ("layout-nonempty", 500),
            ("layout-empty-required", 800),
        ],
    )
}

fn preimages() -> &'static BTreeMap<W, u64> {
    static P: OnceLock<BTreeMap<W, u64>> = OnceLock::new();
    P.get_or_init(|| (0..10_000u64).map(|i| (keccak_words(&[W::from_u64(i)]), i)).collect())
}

/// a look-alike hash on the stack: keccak(x . c), keccak(c) + i, or a pre-folded keccak(c)
fn lookalike(b: &mut B, ch: &mut Chooser, acc: &mut Acc, in_value: bool) {
    let c = W::from_u64(*ch.pick(&[0u64, 1, 2, 3, 5, 7, 11, 42, 77, 9_999]));
    // the mapping hash in a value is a known finding: keep it rare there so that the search goes on
    let pick = if in_value {
        match ch.below(14) {
            0 => 0,
            1..=6 => 2,
            12 | 13 => 4,
            _ => 3,
        }
    } else {
        ch.below(5)
    };
    match pick {
        0 | 1 => {
            if in_value {
                acc.label("lookalike:mapping-hash-in-value");
            }
            if ch.chance(1, 2) {
                b.emit(asm::CALLER);
            } else {
                b.push(W::from_u64(4));
                b.emit(asm::CALLDATALOAD);
            }
            b.push(W::ZERO);
            b.emit(asm::MSTORE);
            b.push(c);
            b.push(W::from_u64(32));
            b.emit(asm::MSTORE);
            b.push(W::from_u64(64));
            b.push(W::ZERO);
            b.emit(asm::SHA3);
            if ch.chance(1, 3) {
                b.push(W::from_u64(ch.below(4) as u64));
                b.emit(asm::ADD);
            }
        }
        4 => {
            // the hash of constant text (a role or a proxy-slot name), possibly plus a small constant
            if in_value {
                acc.label("lookalike:text-hash-in-value");
            }
            let n = ch.range(4, 32);
            let mut bytes = [0u8; 32];
            for x in bytes.iter_mut().take(n) {
                *x = 0x41 + ch.below(26) as u8;
            }
            b.push(W::from_be_slice(&bytes));
            b.push(W::ZERO);
            b.emit(asm::MSTORE);
            b.push(W::from_u64(32));
            b.push(W::ZERO);
            b.emit(asm::SHA3);
            if ch.chance(1, 3) {
                b.push(W::from_u64(ch.range(1, 3) as u64));
                b.emit(asm::ADD);
            }
        }
        2 => {
            if in_value {
                acc.label("lookalike:array-hash-in-value");
            }
            b.push(c);
            b.push(W::ZERO);
            b.emit(asm::MSTORE);
            b.push(W::from_u64(32));
            b.push(W::ZERO);
            b.emit(asm::SHA3);
            b.push(W::from_u64(36));
            b.emit(asm::CALLDATALOAD);
            b.emit(asm::ADD);
        }
        _ => {
            if in_value {
                acc.label("lookalike:prefolded-constant-in-value");
            }
            b.push(keccak_words(&[c]));
            if ch.chance(1, 2) {
                b.push(W::from_u64(36));
                b.emit(asm::CALLDATALOAD);
                b.emit(asm::ADD);
            }
        }
    }
}

/// send the top of the stack somewhere that is not storage
fn sink(b: &mut B, ch: &mut Chooser, acc: &mut Acc) {
    acc.label("lookalike:to-memory/log/return/call");
    match ch.below(5) {
        0 => {
            b.push(W::from_u64(0x100));
            b.emit(asm::MSTORE);
        }
        1 => {
            b.push(W::ZERO);
            b.emit(asm::MSTORE);
            b.push(W::from_u64(32));
            b.push(W::ZERO);
            b.emit(asm::LOG0);
        }
        2 => {
            b.emit(asm::POP);
        }
        3 => {
            // use it as a call target / value
            b.push(W::ZERO);
            b.emit(asm::MSTORE);
            for _ in 0..4 {
                b.push(W::ZERO);
            }
            b.push(W::ZERO);
            b.emit(asm::MLOAD);
            b.push(W::from_u64(5000));
            b.emit(0xfa);
            b.emit(asm::POP);
        }
        _ => {
            b.emit(asm::ISZERO);
            b.emit(asm::POP);
        }
    }
}

fn g_storage_free(ch: &mut Chooser, acc: &mut Acc) -> B {
    let mut b = B::new();
    for _ in 0..ch.range(1, 6) {
        lookalike(&mut b, ch, acc, false);
        if ch.chance(1, 3) {
            b.push(idiom::mask(160));
            b.emit(asm::AND);
        }
        sink(&mut b, ch, acc);
    }
    match ch.below(3) {
        0 => b.emit(asm::STOP),
        1 => {
            b.push(W::from_u64(32));
            b.push(W::from_u64(0x100));
            b.emit(asm::RETURN);
        }
        _ => {}
    }
    if b.ins.is_empty() {
        b.emit(asm::STOP);
    }
    b
}

fn g_mixed(ch: &mut Chooser, acc: &mut Acc) -> B {
    let mut b = B::new();
    // real accesses through idioms, straight-line
    let t = idiom::gen_truth(ch, 3);
    for _ in 0..ch.range(1, 4) {
        match ch.below(4) {
            3 => {
                // a namespaced key: the hash of several memory words, some constant text, at most one of
                // them symbolic (keccak("app.storage.v1" . caller . ".balance")). With a symbolic word the
                // key names no fixed slot; the hash of the constant words alone is never computed.
                let n = ch.range(2, 4);
                let sym_at = if ch.chance(3, 4) { Some(ch.below(n)) } else { None };
                acc.label(if sym_at.is_some() { "key:hash-of-text-and-symbolic-words" } else { "key:hash-of-text-words" });
                for i in 0..n {
                    if Some(i) == sym_at {
                        if ch.chance(1, 2) {
                            b.emit(asm::CALLER);
                        } else {
                            b.push(W::from_u64(4));
                            b.emit(asm::CALLDATALOAD);
                        }
                    } else {
                        let len = if i + 1 == n || ch.chance(1, 3) { ch.range(1, 32) } else { 32 };
                        let mut bytes = [0u8; 32];
                        for x in bytes.iter_mut().take(len) {
                            *x = *ch.pick(&[b'a', b'p', b'.', b'_', b'S', b'z', b'0', b'9', b' ', b'~']);
                        }
                        b.push(W::from_be_slice(&bytes));
                    }
                    b.push(W::from_u64(32 * i as u64));
                    b.emit(asm::MSTORE);
                }
                b.push(W::from_u64(32 * n as u64));
                b.push(W::ZERO);
                b.emit(asm::SHA3);
                if ch.chance(1, 3) {
                    b.push(W::from_u64(ch.range(1, 3) as u64));
                    b.emit(asm::ADD);
                }
                if ch.chance(1, 2) {
                    b.emit(asm::SLOAD);
                    b.emit(asm::POP);
                } else {
                    b.emit(asm::CALLVALUE);
                    b.emit(asm::SWAP1);
                    b.emit(asm::SSTORE);
                }
            }
            0 => {
                // a look-alike hash stored as a VALUE under a literal key
                lookalike(&mut b, ch, acc, true);
                let k = W::from_u64(20 + ch.below(5) as u64);
                b.push(k);
                b.emit(asm::SSTORE);
                if ch.chance(1, 2) {
                    // ... and read back on the same path (the load carries the stored value), then kept
                    // under another literal key, dropped, or returned
                    acc.label("lookalike:stored-value-read-back");
                    b.push(k);
                    b.emit(asm::SLOAD);
                    match ch.below(3) {
                        0 => {
                            b.push(W::from_u64(26 + ch.below(3) as u64));
                            b.emit(asm::SSTORE);
                        }
                        1 => b.emit(asm::POP),
                        _ => {
                            b.push(W::ZERO);
                            b.emit(asm::MSTORE);
                        }
                    }
                }
            }
            1 => {
                // a look-alike hash stored as the value of a mapping entry
                lookalike(&mut b, ch, acc, true);
                b.emit(asm::CALLER);
                b.push(W::ZERO);
                b.emit(asm::MSTORE);
                b.push(W::from_u64(30 + ch.below(3) as u64));
                b.push(W::from_u64(32));
                b.emit(asm::MSTORE);
                b.push(W::from_u64(64));
                b.push(W::ZERO);
                b.emit(asm::SHA3);
                b.emit(asm::SSTORE);
            }
            _ => {
                lookalike(&mut b, ch, acc, false);
                sink(&mut b, ch, acc);
            }
        }
    }
    b.level(0);
    // then the dispatcher-based idiom program
    idiom::compile_into(&mut b, &t, 0xa0b0_0000);
    b
}

/// scratch memory holds a look-alike constant, a call's return area then covers it, and only
/// afterwards is memory hashed into a storage key
fn g_call_clobber(ch: &mut Chooser, acc: &mut Acc) -> B {
    let mut b = B::new();
    let mut c = W::from_u64(*ch.pick(&[1u64, 3, 7, 11, 42]));
    // a return area that ends inside the word holding the constant, whose non-zero bytes are exactly the
    // ones the returned data overwrites
    let partial = ch.chance(1, 3);
    if partial {
        c = c.shl(W::from_u64(224));
        acc.label("call-clobber:partial-word");
    }
    // keccak(caller . c), discarded
    b.emit(asm::CALLER);
    b.push(W::ZERO);
    b.emit(asm::MSTORE);
    b.push(c);
    b.push(W::from_u64(32));
    b.emit(asm::MSTORE);
    b.push(W::from_u64(64));
    b.push(W::ZERO);
    b.emit(asm::SHA3);
    b.emit(asm::POP);
    acc.label("lookalike:to-memory/log/return/call");
    // a call whose return area covers the scratch words
    let (ret_off, ret_size) = if partial {
        *ch.pick(&[(0x20u64, 4u64), (0, 0x24), (0x20, 0x1f), (0, 0x3f), (0x20, 0x21)])
    } else {
        (0, *ch.pick(&[0x40u64, 0x40, 0x60, 0x80, 0x20]))
    };
    b.push(W::from_u64(ret_size));
    b.push(W::from_u64(ret_off));
    b.push(W::ZERO);
    b.push(W::ZERO);
    if ch.chance(1, 2) {
        b.push(W::ZERO);
        b.emit(asm::CALLER);
        b.push(W::from_u64(5000));
        b.emit(asm::CALL);
    } else {
        b.emit(asm::CALLER);
        b.push(W::from_u64(5000));
        b.emit(*ch.pick(&[0xfau8, 0xf4]));
    }
    b.emit(asm::POP);
    // the returned words are used as a mapping location
    b.push(W::from_u64(64));
    b.push(W::ZERO);
    b.emit(asm::SHA3);
    if ch.chance(1, 2) {
        b.emit(asm::SLOAD);
        b.emit(asm::POP);
    } else {
        b.emit(asm::CALLVALUE);
        b.emit(asm::SWAP1);
        b.emit(asm::SSTORE);
    }
    b.emit(asm::STOP);
    b
}

/// all sub-expressions of the key sub-trees of storage nodes
fn collect_keys(values: &[RuntimeBoxedVal], keys: &mut Vec<RuntimeBoxedVal>, seen: &mut HashSet<usize>) {
    for v in values {
        if !seen.insert(crate::eval::arc_ptr(v)) {
            continue;
        }
        match v.data() {
            RSVD::SLoad { key, .. } | RSVD::StorageWrite { key, .. } | RSVD::UnwrittenStorageValue { key } => keys.push(key.clone()),
            _ => {}
        }
        collect_keys(&v.children(), keys, seen);
    }
}

fn eval_const(e: &E) -> Option<W> {
    if e.has_leaf() {
        return None;
    }
    crate::eval::eval(e, &crate::eval::Valuation(0))
}

fn attributable(e: &E, out: &mut BTreeSet<W>) {
    if let Some(w) = eval_const(e) {
        out.insert(w);
    }
    // a hash of a single constant word given directly (not through Concat)
    if let E::Sha3(inner) = e {
        if let Some(w) = eval_const(inner) {
            out.insert(keccak_words(&[w]));
        }
    }
    match e {
        E::Const(_) | E::Leaf(_) => {}
        E::Op2(_, a, b) | E::SLoad(a, b) => {
            attributable(a, out);
            attributable(b, out);
        }
        E::Op1(_, a) | E::Sha3(a) | E::Unwritten(a) => attributable(a, out),
        E::Concat(v) | E::Other(_, v) => v.iter().for_each(|x| attributable(x, out)),
    }
}

pub fn check_code(code: &[u8], class: &str, lookalike_present: bool, acc: &mut Acc) -> CaseResult {
    let case = json!({ "bytes": hex::encode(code) });
    let fail = |sig: String, detail: String| CaseResult::Fail(Violation::new(sig, detail, case.clone()));
    let cfg = VmCfg {
        permissive: true,
        ..VmCfg::default()
    };
    acc.label(&format!("class:{class}"));
    acc.mark(fnv64(code), lookalike_present);
    let kinds = classify(code);
    let has_storage_op = kinds
        .iter()
        .enumerate()
        .any(|(i, k)| *k == Kind::Start && matches!(code[i], 0x54 | 0x55));
    let wd = CountingWatchdog::budget(3_000_000);
    let layout = match guard(|| subj::analyze(code, &cfg, true, subj::dyn_wd(&wd))) {
        Err(p) => {
            acc.excluded("excluded_c01_panic");
            acc.note(format!("subject panicked (owned by C01): {}", p.signature()));
            return CaseResult::Pass;
        }
        Ok(Err(_)) => {
            if wd.fired() {
                acc.excluded("excluded_c03_budget");
            }
            acc.label("analysis-error");
            return CaseResult::Pass;
        }
        Ok(Ok(l)) => l,
    };
    if !has_storage_op {
        acc.label("layout-empty-required");
        if !layout.slots().is_empty() {
            return fail(
                "code without any storage instruction yields a non-empty layout".into(),
                format!("{}", subj::layout_json(&layout)),
            );
        }
        return CaseResult::Pass;
    }
    acc.label_if(!layout.slots().is_empty(), "layout-nonempty");
    if layout.slots().is_empty() {
        return CaseResult::Pass;
    }
    // the attributable set
    let run = match guard(|| subj::run_vm(code, &cfg, subj::lazy())) {
        Ok(Ok(r)) => r,
        _ => {
            acc.excluded("excluded_c01_panic");
            return CaseResult::Pass;
        }
    };
    let mut keys = vec![];
    let mut seen = HashSet::new();
    // keep every value alive while walking: the seen-set is keyed by address
    let all: Vec<RuntimeBoxedVal> = run.states.iter().flat_map(|s| s.clone().all_values()).collect();
    collect_keys(&all, &mut keys, &mut seen);
    let mut a = BTreeSet::new();
    for k in &keys {
        attributable(&to_e(k), &mut a);
    }
    // closure under hash pre-image recognition
    let pre: Vec<W> = a.iter().filter_map(|c| preimages().get(c).map(|i| W::from_u64(*i))).collect();
    a.extend(pre);
    for s in layout.slots() {
        let idx = subj::from_u256(s.index.0);
        if !a.contains(&idx) {
            // where does the constant occur?
            let in_value = value_constants(&run).contains(&idx) || preimages().get(&idx).is_some();
            let mapping_hash = mapping_hash_constants(&run).contains(&idx);
            return fail(
                if mapping_hash {
                    "phantom slot: keccak(key . c) occurring in a stored or loaded VALUE is lifted as a mapping access on slot c".to_string()
                } else {
                    format!(
                        "a reported slot is not attributable to any executed storage key{}",
                        if in_value { " (the constant only occurs in a stored value / non-storage hash)" } else { "" }
                    )
                },
                format!("slot {idx} type {:?}; attributable set {:?}", s.typ, a),
            );
        }
    }
    // ---- the same question answered by the reference EVM (independent of the subject's VM) ----------
    let gas = run.gas.clone();
    let gas_of = |i: usize| gas.get(i).copied().unwrap_or(0);
    let rr = evmref::run(
        code,
        &RefCfg {
            gas_of: &gas_of,
            gas_limit: cfg.gas_limit as u64,
            visit_limit: 1,
            max_paths: 2_000,
            max_steps: 400_000,
            selfdestruct_halts: true,
        },
    );
    let in_domain = rr.complete
        && !rr.prov_overflow
        && rr.paths.len() <= cfg.forks
        && rr.paths.iter().all(|p| !matches!(p.end, End::Budget) && p.gas_error_at.is_none() && !p.prov_imprecise);
    if in_domain {
        acc.label("reference-attribution-checked");
        let mut a_ref: BTreeSet<W> = BTreeSet::new();
        let mut any_storage = false;
        for p in &rr.paths {
            for (k, _, _) in &p.sstores {
                any_storage = true;
                a_ref.extend(rr.provenance(k).iter().copied());
            }
            for (k, _) in &p.sloads {
                any_storage = true;
                a_ref.extend(rr.provenance(k).iter().copied());
            }
        }
        let pre: Vec<W> = a_ref.iter().filter_map(|c| preimages().get(c).map(|i| W::from_u64(*i))).collect();
        a_ref.extend(pre);
        if !any_storage {
            acc.label("reference-executes-no-storage-instruction");
            return fail(
                "a non-empty layout although no path of the reference EVM executes a storage instruction".into(),
                format!("{}", subj::layout_json(&layout)),
            );
        }
        for s in layout.slots() {
            let idx = subj::from_u256(s.index.0);
            if !a_ref.contains(&idx) {
                if mapping_hash_constants(&run).contains(&idx) {
                    return fail(
                        "phantom slot: keccak(key . c) occurring in a stored or loaded VALUE is lifted as a mapping access on slot c".into(),
                        format!("slot {idx} type {:?}; constants flowing into executed storage keys: {:?}", s.typ, a_ref),
                    );
                }
                return fail(
                    "a reported slot is not attributable to any storage access the reference EVM executes".into(),
                    format!("slot {idx} type {:?}; constants flowing into executed storage keys: {:?}", s.typ, a_ref),
                );
            }
        }
    }
    CaseResult::Pass
}

/// constants c such that sha3(concat(x, c)) occurs inside the VALUE position of a storage write or
/// load (the shape of the known finding), not in a key and not in values that never reach storage
fn mapping_hash_constants(run: &subj::VmRun) -> BTreeSet<W> {
    fn hashes(v: &RuntimeBoxedVal, out: &mut BTreeSet<W>) {
        if let RSVD::Sha3 { data } = v.data() {
            if let RSVD::Concat { values } = data.data() {
                if let [_, slot] = &values[..] {
                    if let RSVD::KnownData { value } = slot.constant_fold().data() {
                        out.insert(subj::from_kw(value));
                    }
                }
            }
        }
        match v.data() {
            // a nested storage node: only its value position counts again
            RSVD::SLoad { value, .. } | RSVD::StorageWrite { value, .. } => hashes(value, out),
            RSVD::UnwrittenStorageValue { .. } => {}
            _ => {
                for c in v.children() {
                    hashes(&c, out);
                }
            }
        }
    }
    fn walk(v: &RuntimeBoxedVal, out: &mut BTreeSet<W>, seen: &mut HashSet<usize>) {
        if !seen.insert(crate::eval::arc_ptr(v)) {
            return;
        }
        match v.data() {
            RSVD::SLoad { value, .. } | RSVD::StorageWrite { value, .. } => hashes(value, out),
            _ => {}
        }
        for c in v.children() {
            walk(&c, out, seen);
        }
    }
    let mut out = BTreeSet::new();
    let mut seen = HashSet::new();
    let all: Vec<RuntimeBoxedVal> = run.states.iter().flat_map(|s| s.clone().all_values()).collect();
    for v in &all {
        walk(v, &mut out, &mut seen);
    }
    out
}

/// every constant occurring anywhere in the collected values (diagnostics only)
fn value_constants(run: &subj::VmRun) -> BTreeSet<W> {
    fn walk(v: &RuntimeBoxedVal, out: &mut BTreeSet<W>, seen: &mut HashSet<usize>) {
        if !seen.insert(crate::eval::arc_ptr(v)) {
            return;
        }
        if let RSVD::KnownData { value } = v.data() {
            out.insert(subj::from_kw(value));
        }
        for c in v.children() {
            walk(&c, out, seen);
        }
    }
    let mut out = BTreeSet::new();
    let mut seen = HashSet::new();
    let all: Vec<RuntimeBoxedVal> = run.states.iter().flat_map(|s| s.clone().all_values()).collect();
    for v in &all {
        walk(v, &mut out, &mut seen);
    }
    out
}

/// A scratch word at a symbolic offset (a free-memory pointer that depends on the call data size) is
/// stored to several times; a look-alike constant passes through it but is overwritten before the word
/// is hashed into the location of an array element
fn g_symbolic_scratch(ch: &mut Chooser, acc: &mut Acc) -> B {
    let mut b = B::new();
    let real = W::from_u64(*ch.pick(&[2u64, 3, 5, 9, 12]));
    let look = W::from_u64(*ch.pick(&[1u64, 7, 11, 42, 77]));
    // mstore(0x40, 0x80 + calldatasize)
    b.push(W::from_u64(0x80));
    b.emit(asm::CALLDATASIZE);
    b.emit(asm::ADD);
    b.push(W::from_u64(0x40));
    b.emit(asm::MSTORE);
    let store = |b: &mut B, w: W| {
        b.push(w);
        b.push(W::from_u64(0x40));
        b.emit(asm::MLOAD);
        b.emit(asm::MSTORE);
    };
    let order: &[bool] = *ch.pick(&[&[true, false, true][..], &[false, true], &[false, false, true], &[true, false, false, true], &[true]]);
    for is_real in order {
        store(&mut b, if *is_real { real } else { look });
    }
    acc.label("symbolic-scratch");
    // keccak(mem[ptr .. ptr+32]) + index
    b.push(W::from_u64(0x20));
    b.push(W::from_u64(0x40));
    b.emit(asm::MLOAD);
    b.emit(asm::SHA3);
    b.push(W::from_u64(4));
    b.emit(asm::CALLDATALOAD);
    b.emit(asm::ADD);
    if ch.chance(1, 2) {
        b.emit(asm::SLOAD);
        b.emit(asm::POP);
    } else {
        b.emit(asm::CALLVALUE);
        b.emit(asm::SWAP1);
        b.emit(asm::SSTORE);
    }
    b.emit(asm::STOP);
    b
}

fn run_shard(ctx: &ShardCtx, acc: &mut Acc) {
    let tier = ctx.tier;
    drive(ctx, "programs", tier.pick(75_000, 400_000), 900, acc, &|ch, acc| {
        let (class, code) = match ch.below(15) {
            14 => ("symbolic-scratch", g_symbolic_scratch(ch, acc).code()),
            0..=3 => ("storage-free", g_storage_free(ch, acc).code()),
            4..=8 => ("mixed", g_mixed(ch, acc).code()),
            9 | 10 => ("call-clobber", g_call_clobber(ch, acc).code()),
            11 | 12 => (
                // storage code in blocks that may be dead (behind faulting jumps and halts)
                "dead-storage",
                gen::g_cf(
                    ch,
                    &CfOpts {
                        back_edges: false,
                        faults: false,
                        trunc_tail: false,
                        max_blocks: 7,
                    },
                )
                .b
                .code(),
            ),
            _ => ("mutreal", gen::g_mutreal(ch, tier.pick(300, 1500)).1),
        };
        acc.sample(|| json!({ "class": class, "bytes": hex::encode(&code[..code.len().min(200)]), "len": code.len() }));
        check_code(&code, class, class != "mutreal", acc)
    });
}

fn replay(case: &Value, acc: &mut Acc) -> CaseResult {
    let code = hex::decode(case["bytes"].as_str().expect("replay case: bytes")).expect("replay case: hex");
    check_code(&code, "replay", true, acc)
}

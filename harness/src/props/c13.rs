//! C13 — the watchdog can stop analysis at any poll and is polled as often as promised.

use crate::{
    asm,
    core::{drive, fnv64, guard, Acc, CaseResult, Chooser, ShardCtx, Tier, Violation},
    gen::B,
    props::PropDef,
    refword::W,
    subj::{self, CountingWatchdog, VmCfg},
};
use serde::{Deserialize, Serialize};
use serde_json::{json, Value};
use std::collections::HashSet;
use storage_layout_extractor as sle;
use sle::{disassembly::InstructionStream, tc::TypeChecker, vm::VM};

pub fn def() -> PropDef {
    PropDef {
        id: "C13",
        level: "fault_enumeration",
        rule: "programs that spend their time in each polled loop - straight-line and forking code (VM main loop), CALLDATACOPY / \
               CODECOPY / EXTCODECOPY / RETURNDATACOPY / CALL-family with constant sizes (copy loops), many distinct values, slots \
               and classes (lifting, assignment, inference, unification, layout building) - x poll interval in {1,2,3,7,100,1000} \
               and random x strict/permissive x EVERY stop index k < N (all poll indices of the run when N <= 1500, otherwise the \
               first 60, the last 60 and 150 spread). Oracles: (1) with a never-stopping watchdog the result equals the LazyWatchdog \
               result for every interval; (2) stopping from poll k on always yields an error containing StoppedByWatchdog, never a \
               layout, with at most interval+2 further polls; (3) poll accounting: VM polls = ceil(main iterations / p) + sum over \
               copy instructions of ceil(copy iterations / p) (iterations known from the program), lifting polls = ceil(unique \
               values / p), assignment polls = ceil(values / p), inference polls = ceil(registered values / p), unification + \
               layout polls >= 1 when there is anything to unify. distinct = hash of (bytecode, interval, mode, k); non-trivial = \
               the stop lands strictly inside a stage (not at that stage's first poll)",
        assumptions: &[
            "the counting watchdog is the harness' own implementation of the public Watchdog trait",
            "copy iteration counts are derived from the constant sizes in the generated program and the configured per-operation limit",
        ],
        run_shard,
        replay,
        describe: None,
        health,
        exhaustive: Some(true),
    }
}

fn health(acc: &Acc, _t: Tier) -> Vec<String> {
    crate::props::require_labels(
        acc,
        &[
            ("stop-in:vm-main", 500),
            ("stop-in:copy", 500),
            ("stop-in:lift", 300),
            ("stop-in:assign", 300),
            ("stop-in:infer", 300),
            ("stop-in:unify+layout", 300),
            ("copy:calldatacopy", 20),
            ("copy:codecopy", 20),
            ("copy:extcodecopy", 20),
            ("copy:returndatacopy", 20),
            ("copy:call-return", 20),
            ("interval=1", 20),
            ("interval=1000", 20),
            ("permissive", 40),
            ("accounting-checked", 100),
        ],
    )
}

#[derive(Clone, Debug, PartialEq, Eq, Serialize, Deserialize)]
pub struct Case {
    pub bytes:      Vec<u8>,
    /// iterations of each copy loop, in execution order (straight-line programs)
    pub copy_iters: Vec<u64>,
    /// main-loop iterations are known exactly (straight-line program, every stream entry up to the halt)
    pub straight:   bool,
    pub interval:   usize,
    pub permissive: bool,
    pub kinds:      Vec<String>,
}

const MEM_LIMIT: usize = 2048;

fn cfg(c: &Case) -> VmCfg {
    VmCfg {
        memory_op: MEM_LIMIT,
        permissive: c.permissive,
        ..VmCfg::default()
    }
}

pub fn gen_case(ch: &mut Chooser) -> Case {
    let mut b = B::new();
    let mut copy_iters = vec![];
    let mut kinds = vec![];
    let mut straight = true;
    let nparts = ch.range(1, 4);
    for _ in 0..nparts {
        match ch.below(8) {
            0 | 1 => {
                // bulk copies with constant sizes
                for _ in 0..ch.range(1, 3) {
                    let size = *ch.pick(&[0u64, 1, 31, 32, 33, 64, 96, 320, 1000, 2048, 5000]);
                    let which = ch.below(5);
                    let (limit, name) = match which {
                        0 => (MEM_LIMIT as u64, "calldatacopy"),
                        1 => (24_576, "codecopy"),
                        2 => (24_576, "extcodecopy"),
                        3 => (MEM_LIMIT as u64, "returndatacopy"),
                        _ => (MEM_LIMIT as u64, "call-return"),
                    };
                    let iters = (size.min(limit) + 31) / 32;
                    match which {
                        0 | 1 | 3 => {
                            b.push(W::from_u64(size));
                            b.push(W::ZERO);
                            b.push(W::from_u64(64));
                            b.emit([asm::CALLDATACOPY, asm::CODECOPY, 0, asm::RETURNDATACOPY][which]);
                        }
                        2 => {
                            b.push(W::from_u64(size));
                            b.push(W::ZERO);
                            b.push(W::from_u64(64));
                            b.emit(asm::CALLER);
                            b.emit(asm::EXTCODECOPY);
                        }
                        _ => {
                            // CALL(gas, addr, value, argOff, argSize, retOff, retSize)
                            b.push(W::from_u64(size));
                            b.push(W::from_u64(128));
                            b.push(W::ZERO);
                            b.push(W::ZERO);
                            if ch.chance(1, 2) {
                                b.push(W::ZERO);
                                b.emit(asm::CALLER);
                                b.push(W::from_u64(5000));
                                b.emit(asm::CALL);
                            } else {
                                b.emit(asm::CALLER);
                                b.push(W::from_u64(5000));
                                b.emit(0xfa); // STATICCALL
                            }
                            b.emit(asm::POP);
                        }
                    }
                    copy_iters.push(iters);
                    kinds.push(format!("copy:{name}"));
                }
            }
            2 | 3 => {
                // many distinct slots / values: work for lifting, assignment, inference, unification, layout
                let n = ch.range(3, 25);
                let base = ch.below(1000) as u64;
                for i in 0..n {
                    b.push(W::from_u64(i as u64 * 32));
                    b.emit(asm::CALLDATALOAD);
                    match ch.below(4) {
                        0 => {
                            b.push(W::pow2(160).sub(W::ONE));
                            b.emit(asm::AND);
                        }
                        1 => {
                            b.emit(asm::ISZERO);
                        }
                        2 => {
                            b.emit(asm::CALLER);
                            b.emit(asm::ADD);
                        }
                        _ => {}
                    }
                    b.push(W::from_u64(base + i as u64));
                    b.emit(asm::SSTORE);
                }
                kinds.push("tc-heavy".into());
            }
            4 => {
                // long straight-line VM work
                for i in 0..ch.range(10, 150) {
                    b.push(W::from_u64(i as u64));
                    b.emit(asm::POP);
                }
                kinds.push("vm-long".into());
            }
            5 => {
                // forks (main-loop iterations are then not derived from the code length)
                for _ in 0..ch.range(1, 4) {
                    let l = b.label();
                    b.emit(asm::CALLDATASIZE);
                    b.push_label(l);
                    b.emit(asm::JUMPI);
                    b.push(W::ONE);
                    b.push(W::from_u64(ch.below(50) as u64));
                    b.emit(asm::SSTORE);
                    b.place(l);
                }
                straight = false;
                kinds.push("forks".into());
            }
            6 => {
                // mapping + array accesses (more classes and rounds for unification)
                for i in 0..ch.range(1, 5) {
                    b.emit(asm::CALLER);
                    b.push(W::ZERO);
                    b.emit(asm::MSTORE);
                    b.push(W::from_u64(i as u64));
                    b.push(W::from_u64(32));
                    b.emit(asm::MSTORE);
                    b.push(W::from_u64(64));
                    b.push(W::ZERO);
                    b.emit(asm::SHA3);
                    b.emit(asm::SLOAD);
                    b.push(W::from_u64(100 + i as u64));
                    b.emit(asm::SSTORE);
                }
                kinds.push("mappings".into());
            }
            _ => {
                // a loop
                let l = b.label();
                b.place(l);
                b.push(W::ONE);
                b.emit(asm::POP);
                b.emit(asm::CALLDATASIZE);
                b.push_label(l);
                b.emit(asm::JUMPI);
                straight = false;
                kinds.push("loop".into());
            }
        }
    }
    b.level(0);
    b.emit(asm::STOP);
    let interval = match ch.below(8) {
        0 => 1,
        1 => 2,
        2 => 3,
        3 => 7,
        4 => 100,
        5 => 1000,
        _ => ch.range(1, 1000),
    };
    Case {
        bytes: b.code(),
        copy_iters,
        straight,
        interval,
        permissive: ch.chance(1, 3),
        kinds,
    }
}

fn case_json(c: &Case, k: Option<u64>) -> Value {
    json!({ "case": c, "stop_at": k, "bytes_hex": hex::encode(&c.bytes) })
}

fn has_stopped_error(e: &sle::error::Errors) -> bool {
    e.payloads().iter().any(|p| {
        matches!(
            &p.payload,
            sle::error::Error::Execution(sle::error::execution::Error::StoppedByWatchdog)
                | sle::error::Error::Unification(sle::error::unification::Error::StoppedByWatchdog)
        )
    })
}

fn ceil_div(a: u64, b: u64) -> u64 {
    if a == 0 {
        0
    } else {
        (a + b - 1) / b
    }
}

#[derive(Debug, Clone)]
struct Stages {
    /// cumulative poll counts at the end of each stage (never-stop run through the staged API)
    vm:     u64,
    lift:   u64,
    assign: u64,
    infer:  u64,
    unify:  u64,
    unique_values: u64,
    values: u64,
    registered: u64,
    vm_failed: bool,
}

/// run the stages one by one with a never-stopping counting watchdog
fn staged(c: &Case, interval: usize) -> Result<Stages, String> {
    let wd = CountingWatchdog::new(interval, u64::MAX);
    let stream = InstructionStream::try_from(c.bytes.as_slice()).map_err(|e| format!("{e:?}"))?;
    let mut vm = VM::new(stream, cfg(c).to_config(), subj::dyn_wd(&wd)).map_err(|e| format!("{e:?}"))?;
    let r = vm.execute();
    let vm_polls = wd.count();
    let vm_failed = r.is_err();
    let result = vm.consume();
    let all = result.clone().all_values();
    let values_total = all.len() as u64;
    let unique: HashSet<_> = all.into_iter().collect();
    let mut tc = TypeChecker::new(subj::tc_config(true), subj::dyn_wd(&wd));
    let lifted = tc.lift(result).map_err(|e| format!("lift: {e:?}"))?;
    let lift_polls = wd.count();
    let n_lifted = lifted.len() as u64;
    tc.assign_vars(lifted).map_err(|e| format!("assign: {e:?}"))?;
    let assign_polls = wd.count();
    let registered = tc.state().values().len() as u64;
    tc.infer().map_err(|e| format!("infer: {e:?}"))?;
    let infer_polls = wd.count();
    let _ = tc.unify();
    let unify_polls = wd.count();
    let _ = values_total;
    Ok(Stages {
        vm: vm_polls,
        lift: lift_polls,
        assign: assign_polls,
        infer: infer_polls,
        unify: unify_polls,
        unique_values: unique.len() as u64,
        values: n_lifted,
        registered,
        vm_failed,
    })
}

fn stage_of(k: u64, s: &Stages, copy_polls_before_main_end: bool) -> &'static str {
    let _ = copy_polls_before_main_end;
    if k < s.vm {
        "vm"
    } else if k < s.lift {
        "lift"
    } else if k < s.assign {
        "assign"
    } else if k < s.infer {
        "infer"
    } else {
        "unify+layout"
    }
}

/// (2): stop from poll k on
fn check_stop(c: &Case, k: u64, stages: &Stages, acc: &mut Acc) -> CaseResult {
    let wd = CountingWatchdog::new(c.interval, k);
    let r = guard(|| subj::analyze(&c.bytes, &cfg(c), true, subj::dyn_wd(&wd)));
    let stage = stage_of(k, stages, false);
    let first_of_stage = k == 0 || k == stages.vm || k == stages.lift || k == stages.assign || k == stages.infer;
    let mut key = c.bytes.clone();
    key.extend_from_slice(&(c.interval as u64).to_le_bytes());
    key.push(c.permissive as u8);
    key.extend_from_slice(&k.to_le_bytes());
    acc.mark(fnv64(&key), !first_of_stage);
    if stage == "vm" {
        // copy polls and main-loop polls interleave; label by whether the program has copy loops
        if c.copy_iters.iter().any(|n| *n > 0) && k > 0 {
            acc.label("stop-in:copy");
        } else {
            acc.label("stop-in:vm-main");
        }
    } else {
        acc.label(&format!("stop-in:{stage}"));
    }
    let fail = |sig: String, detail: String| CaseResult::Fail(Violation::new(sig, detail, case_json(c, Some(k))));
    match r {
        Err(p) => {
            acc.excluded("excluded_c01_panic");
            acc.note(format!("subject panicked (owned by C01): {}", p.signature()));
            CaseResult::Pass
        }
        // unification's poll count depends on hash iteration order, so a late k may lie beyond the
        // end of this particular run: the watchdog was then never asked and never said stop
        Ok(Ok(_)) if wd.count() <= k => {
            acc.label("stop-index-beyond-this-run");
            CaseResult::Pass
        }
        Ok(Ok(layout)) => fail(
            format!(
                "a layout was returned although the watchdog said stop (stage {stage}{})",
                if c.permissive { ", permissive mode" } else { "" }
            ),
            format!("stop from poll {k} of interval {}: Ok with {} slots", c.interval, layout.slots().len()),
        ),
        Ok(Err(e)) => {
            if !has_stopped_error(&e) {
                return fail(
                    format!("the error returned after a stop does not contain StoppedByWatchdog (stage {stage})"),
                    format!("stop from poll {k}: {:?}", subj::error_kinds(&e)),
                );
            }
            let after = wd.after_stop.get();
            acc.max("max_polls_after_stop", after);
            if after > c.interval as u64 + 2 {
                return fail(
                    format!("the analysis kept polling long after the watchdog said stop (stage {stage})"),
                    format!("stop from poll {k} of interval {}: {after} further polls", c.interval),
                );
            }
            CaseResult::Pass
        }
    }
}

pub fn check_case(c: &Case, only_k: Option<u64>, acc: &mut Acc) -> CaseResult {
    let fail = |sig: String, detail: String| CaseResult::Fail(Violation::new(sig, detail, case_json(c, None)));
    for k in &c.kinds {
        if k.starts_with("copy:") {
            acc.label(k);
        }
    }
    acc.label_if(c.interval == 1, "interval=1");
    acc.label_if(c.interval == 1000, "interval=1000");
    acc.label_if(c.permissive, "permissive");
    // staged never-stop runs at interval 1 and at the case's interval
    let (s1, sp) = match guard(|| (staged(c, 1), staged(c, c.interval))) {
        Err(p) => {
            acc.excluded("excluded_c01_panic");
            acc.note(format!("subject panicked (owned by C01): {}", p.signature()));
            return CaseResult::Pass;
        }
        Ok((Ok(a), Ok(b))) => (a, b),
        Ok((Err(e), _)) | Ok((_, Err(e))) => {
            acc.excluded("stage-error");
            acc.note(format!("a stage failed without a stop: {e}"));
            return CaseResult::Pass;
        }
    };
    let p = c.interval as u64;
    if let Some(k) = only_k {
        return check_stop(c, k, &sp, acc);
    }
    // ---- (3) accounting ---------------------------------------------------------------------------
    let copy_total: u64 = c.copy_iters.iter().sum();
    if c.straight && !s1.vm_failed {
        acc.label("accounting-checked");
        let main_iters = s1.vm.saturating_sub(copy_total);
        // independent check of the main-loop count: every stream entry up to and including the STOP
        if main_iters != c.bytes.len() as u64 {
            return fail(
                "at interval 1 the VM's poll count is not main-loop iterations + copy iterations".into(),
                format!("polls {} copy iterations {copy_total} code length {}", s1.vm, c.bytes.len()),
            );
        }
        let want = ceil_div(main_iters, p) + c.copy_iters.iter().map(|n| ceil_div(*n, p)).sum::<u64>();
        if sp.vm != want {
            let which = if sp.vm > want { "more often" } else { "less often" };
            return fail(
                format!(
                    "execution polls {which} than once per interval iterations ({})",
                    if copy_total > 0 { "program with bulk copies" } else { "main loop only" }
                ),
                format!("interval {p}: {} polls, expected {want} (main iterations {main_iters}, copy iterations {:?})", sp.vm, c.copy_iters),
            );
        }
    }
    let lift_polls = sp.lift - sp.vm;
    if lift_polls != ceil_div(sp.unique_values, p) {
        return fail(
            "lifting does not poll once per interval values".into(),
            format!("interval {p}: {lift_polls} polls for {} unique values", sp.unique_values),
        );
    }
    let assign_polls = sp.assign - sp.lift;
    if assign_polls != ceil_div(sp.values, p) {
        return fail(
            "variable assignment does not poll once per interval values".into(),
            format!("interval {p}: {assign_polls} polls for {} values", sp.values),
        );
    }
    let infer_polls = sp.infer - sp.assign;
    if infer_polls != ceil_div(sp.registered, p) {
        return fail(
            "inference does not poll once per interval values".into(),
            format!("interval {p}: {infer_polls} polls for {} registered values", sp.registered),
        );
    }
    let unify_polls = sp.unify - sp.infer;
    let unify_polls_1 = s1.unify - s1.infer;
    if sp.registered > 0 && unify_polls == 0 {
        return fail("unification and layout building never poll".into(), format!("interval {p}"));
    }
    // unification and layout building: at interval 1 every iteration polls, so the interval-1 count is the
    // amount of work W; at interval p the polls must track W / p. W depends on hash iteration order (by a
    // factor of up to 1.5 between runs), so W is sampled three times and a factor of two is allowed on
    // either side of the extremes
    if p > 1 && sp.registered > 0 {
        let mut w = vec![unify_polls_1];
        for _ in 0..2 {
            if let Ok(Ok(s)) = guard(|| staged(c, 1)) {
                w.push(s.unify - s.infer);
            }
        }
        let (wmin, wmax) = (*w.iter().min().unwrap(), *w.iter().max().unwrap());
        let (lo, hi) = ((wmin / (2 * p)).saturating_sub(1), 2 * ceil_div(wmax, p) + 2);
        if unify_polls < lo || unify_polls > hi {
            let which = if unify_polls < lo { "less often" } else { "more often" };
            return fail(
                format!("unification / layout building polls {which} than once per interval iterations"),
                format!("interval {p}: {unify_polls} polls; work at interval 1 in three runs: {w:?} (accepted {lo}..={hi})"),
            );
        }
        acc.label("unify-polls-tracked");
        // exact form, when the work does not vary between runs: unification polls once per `p` classes
        // looked at (one counter over all rounds) and layout building once per `p` slots, so the polls
        // of the two together are ceil(U / p) + ceil(S / p) with S the number of slots in the layout
        if wmin == wmax {
            if let Ok(Ok(l)) = guard(|| subj::analyze(&c.bytes, &cfg(c), true, subj::lazy())) {
                let s: std::collections::BTreeSet<String> = l.slots().iter().map(|r| format!("{:?}", r.index)).collect();
                let s = s.len() as u64;
                if s <= wmin {
                    let want = ceil_div(wmin - s, p) + ceil_div(s, p);
                    acc.label("unify+layout-polls-exact");
                    if unify_polls != want {
                        return fail(
                            "unification / layout building do not poll once per interval iterations (exact count)".into(),
                            format!("interval {p}: {unify_polls} polls, expected {want} = ceil({}/{p}) + ceil({s}/{p})", wmin - s),
                        );
                    }
                }
            }
        }
    }
    if unify_polls > 2 * unify_polls_1 + 16 {
        return fail(
            "unification / layout polls do not track the work done".into(),
            format!("interval {p}: {unify_polls} polls; interval 1: {unify_polls_1}"),
        );
    }
    // ---- (1) never-stop equals unmonitored ----------------------------------------------------------
    let wd = CountingWatchdog::new(c.interval, u64::MAX);
    let monitored = guard(|| subj::analyze(&c.bytes, &cfg(c), true, subj::dyn_wd(&wd)));
    let lazy = guard(|| subj::analyze(&c.bytes, &cfg(c), true, subj::lazy()));
    let n_total = wd.count();
    match (&monitored, &lazy) {
        (Ok(Ok(a)), Ok(Ok(b))) => {
            if a != b {
                let again = guard(|| subj::analyze(&c.bytes, &cfg(c), true, subj::lazy()));
                if matches!(&again, Ok(Ok(x)) if x != b) {
                    acc.excluded("excluded_unstable_c02");
                } else {
                    return fail(
                        "a never-stopping watchdog changes the layout".into(),
                        format!("monitored {:?}\nunmonitored {:?}", a.slots(), b.slots()),
                    );
                }
            }
        }
        (Ok(Err(a)), Ok(Err(b))) => {
            if subj::error_kinds(a) != subj::error_kinds(b) {
                return fail("a never-stopping watchdog changes the errors".into(), format!("{:?} vs {:?}", subj::error_kinds(a), subj::error_kinds(b)));
            }
        }
        (Ok(_), Ok(_)) => return fail("a never-stopping watchdog changes the result class".into(), String::new()),
        _ => {
            acc.excluded("excluded_c01_panic");
            return CaseResult::Pass;
        }
    }
    // ---- the shipped flag watchdog: lowered = unmonitored result, raised = stopped at the first poll ----
    {
        use sle::watchdog::{FlagWatchdog, Watchdog};
        use std::sync::{atomic::AtomicBool, Arc};
        let flag = Arc::new(AtomicBool::new(false));
        let fw = FlagWatchdog::new(flag.clone()).polling_every(c.interval);
        if fw.poll_every() != c.interval {
            return fail("FlagWatchdog does not report the requested poll interval".into(), format!("{}", fw.poll_every()));
        }
        let lowered = guard(|| subj::analyze(&c.bytes, &cfg(c), true, fw.in_rc()));
        let same = match (&lowered, &lazy) {
            (Ok(Ok(a)), Ok(Ok(b))) => a == b || monitored.as_ref().map(|m| matches!(m, Ok(x) if x != b)).unwrap_or(false),
            (Ok(Err(a)), Ok(Err(b))) => subj::error_kinds(a) == subj::error_kinds(b),
            (Err(_), _) | (_, Err(_)) => true,
            _ => false,
        };
        if !same {
            return fail("a lowered FlagWatchdog changes the result".into(), String::new());
        }
        flag.store(true, std::sync::atomic::Ordering::Relaxed);
        let fw = FlagWatchdog::new(flag.clone()).polling_every(c.interval);
        let raised = guard(|| subj::analyze(&c.bytes, &cfg(c), true, fw.in_rc()));
        match &raised {
            Ok(Err(e)) if has_stopped_error(e) => acc.label("flag-watchdog-raised"),
            Ok(Err(e)) => {
                return fail(
                    "a raised FlagWatchdog does not end the analysis with StoppedByWatchdog".into(),
                    format!("{:?}", subj::error_kinds(e)),
                )
            }
            Ok(Ok(l)) => {
                return fail(
                    "a layout was returned although the FlagWatchdog was raised from the start".into(),
                    format!("{:?}", l.slots()),
                )
            }
            Err(_) => {}
        }
    }
    acc.max("max_polls_in_a_run", n_total);
    // ---- (2) every stop index ------------------------------------------------------------------------
    let n = n_total;
    let ks: Vec<u64> = if n <= 1500 {
        (0..n).collect()
    } else {
        let mut v: Vec<u64> = (0..60).chain(n - 60..n).collect();
        for i in 0..150 {
            v.push(60 + (n - 120) * i / 150);
        }
        v.sort();
        v.dedup();
        v
    };
    acc.count("stop_points", ks.len() as u64);
    for k in ks {
        acc.case();
        if let CaseResult::Fail(v) = check_stop(c, k, &sp, acc) {
            return CaseResult::Fail(v);
        }
    }
    CaseResult::Pass
}

fn run_shard(ctx: &ShardCtx, acc: &mut Acc) {
    drive(ctx, "runs", ctx.tier.pick(150, 2_000), 400, acc, &|ch, acc| {
        let c = gen_case(ch);
        acc.sample(|| json!({ "bytes": hex::encode(&c.bytes[..c.bytes.len().min(120)]), "len": c.bytes.len(), "interval": c.interval, "permissive": c.permissive, "kinds": c.kinds }));
        check_case(&c, None, acc)
    });
    let _ = Tier::Quick;
}

fn replay(case: &Value, acc: &mut Acc) -> CaseResult {
    let c: Case = serde_json::from_value(case["case"].clone()).expect("replay case");
    let k = case["stop_at"].as_u64();
    check_case(&c, k, acc)
}

//! C12 — returned layouts are ordered and every entry lies inside its 256-bit slot.

use crate::{
    asm,
    core::{drive, fnv64, guard, Acc, CaseResult, Chooser, ShardCtx, Tier, Violation},
    gen::{self, B},
    idiom,
    props::{c01::g_hostile_idiom, c04::width_of, PropDef},
    refword::W,
    subj::{self, CountingWatchdog, VmCfg},
};
use serde_json::{json, Value};

pub fn def() -> PropDef {
    PropDef {
        id: "C12",
        level: "exploration",
        rule: "programs from: mask-and-shift storage code with shift amounts and mask positions anywhere in 0..2^256 (>= 256, near \
               2^64, 2^255), nested packed encodings (several masked fields OR-ed into one store, fields at bit 200+ with widths \
               that run past bit 256, shifted sub-words of shifted sub-words), ground-truth idiom layouts, stack-aware programs \
               over the whole opcode table, mutated real contracts; strict and permissive. Oracle on every Ok layout: (index, \
               offset) is non-decreasing; offset < 256; offset + width(type) <= 256 whenever the type has a known width (bool 8, \
               selector 32, address 160, function 192, sized int/uint/number/bits, bytesN 8N). distinct = hash of (bytecode, mode); \
               non-trivial = the layout has >= 2 entries in one slot, or the program uses a shift / mask position >= 256",
        assumptions: &["StorageLayout::slots() is the returned order"],
        run_shard,
        replay,
        describe: None,
        health,
        exhaustive: None,
    }
}

fn health(acc: &Acc, _t: Tier) -> Vec<String> {
    crate::props::require_labels(
        acc,
        &[
            ("gen:packed-edge", 500),
            ("gen:hostile-idiom", 500),
            ("gen:idiom", 300),
            ("gen:struct", 200),
            ("gen:mutreal", 100),
            ("layout-ok", 2000),
            ("slot-with>=2-entries", 500),
            ("entry-at-offset>=128", 300),
            ("entry-ending-at-256", 100),
        ],
    )
}

/// packed writes whose fields sit near the top of the word or beyond it
fn g_packed_edge(ch: &mut Chooser) -> B {
    let mut b = B::new();
    let slot = W::from_u64(ch.below(3) as u64);
    let nstores = ch.range(1, 3);
    for _ in 0..nstores {
        let nfields = ch.range(1, 4);
        for i in 0..nfields {
            // (value & mask_w) * 2^o
            b.push(W::from_u64(4 + 32 * i as u64));
            b.emit(asm::CALLDATALOAD);
            let w = *ch.pick(&[8usize, 16, 32, 64, 96, 128, 160, 192, 248, 256]);
            b.push(idiom::mask(w));
            b.emit(asm::AND);
            let o = *ch.pick(&[0usize, 8, 96, 128, 160, 200, 224, 240, 248, 255]);
            if o > 0 {
                if ch.chance(1, 5) {
                    b.push(W::from_u64(o as u64));
                    b.emit(asm::SHL);
                } else {
                    b.push(W::pow2(o as u32));
                    b.emit(asm::MUL);
                }
            }
            if i > 0 {
                b.emit(asm::OR);
            }
        }
        if ch.chance(1, 2) {
            // keep the rest of the old word
            b.push(slot);
            b.emit(asm::SLOAD);
            let keep = ch.word();
            b.push(keep);
            b.emit(asm::AND);
            b.emit(asm::OR);
        }
        b.push(slot);
        b.emit(asm::SSTORE);
        // and a read of a field near the top
        if ch.chance(1, 2) {
            b.push(slot);
            b.emit(asm::SLOAD);
            let sh = *ch.pick(&[0u64, 8, 128, 160, 200, 248, 255, 256, 300]);
            if ch.chance(1, 2) {
                b.push(W::from_u64(sh));
                b.emit(asm::SHR);
            } else if sh < 256 {
                b.push(W::pow2(sh as u32));
                b.emit(asm::SWAP1);
                b.emit(asm::DIV);
            }
            let w = *ch.pick(&[8usize, 64, 160, 256]);
            // mask positioned anywhere
            let mpos = *ch.pick(&[0usize, 0, 8, 96, 100]);
            b.push(idiom::mask(w).shl(W::from_u64(mpos as u64)));
            b.emit(asm::AND);
            b.push(W::from_u64(10 + ch.below(3) as u64));
            b.emit(asm::SSTORE);
        }
    }
    b.emit(asm::STOP);
    b
}

/// Does lifting this program produce a sub-word taken from a narrower sub-word (an outer mask that
/// reaches beyond the bits the inner mask left)? That is the structural feature of the one family
/// recorded as a known finding.
fn has_sub_word_of_narrower_sub_word(code: &[u8], cfg: &VmCfg) -> bool {
    use storage_layout_extractor::{
        tc::state::TypeCheckerState,
        vm::value::{RuntimeBoxedVal, RSVD},
    };
    fn walk(v: &RuntimeBoxedVal) -> bool {
        if let RSVD::SubWord { value, offset, size } = v.data() {
            if let RSVD::SubWord { size: inner, .. } = value.data() {
                if offset + size > *inner {
                    return true;
                }
            }
        }
        v.children().iter().any(walk)
    }
    let Ok(Ok(run)) = guard(|| subj::run_vm(code, cfg, subj::lazy())) else { return false };
    let state = TypeCheckerState::empty();
    let mut passes = subj::tc_config(true).lifting_passes;
    let mut found = false;
    for s in &run.states {
        for v in s.clone().all_values() {
            if let Ok(Ok(l)) = guard(|| passes.run(v.clone(), &state)) {
                if walk(&l) {
                    found = true;
                }
            }
        }
    }
    found
}

/// The same family seen at the level of resolved types: a span of a packed encoding whose own type is a
/// packed encoding with an element that does not fit into that span (the outer sub-word is narrower than
/// what its content claims; it arises without a syntactic sub-word of a sub-word when the value travels
/// through storage, e.g. slot0 := sload(K) & bit129 with K typed by a cycle). Flattening adds the
/// offsets without regard to the holding span.
fn has_packed_nested_beyond_its_span(code: &[u8], cfg: &VmCfg) -> bool {
    use storage_layout_extractor::{disassembly::InstructionStream, tc::{expression::TE, TypeChecker}, vm::VM};
    let r = guard(|| {
        let wd = CountingWatchdog::budget(3_000_000);
        let stream = InstructionStream::try_from(code).ok()?;
        let mut vm = VM::new(stream, cfg.to_config(), subj::dyn_wd(&wd)).ok()?;
        let _ = vm.execute();
        let result = vm.consume();
        let mut tc = TypeChecker::new(subj::tc_config(true), subj::dyn_wd(&wd));
        let lifted = tc.lift(result).ok()?;
        tc.assign_vars(lifted).ok()?;
        tc.infer().ok()?;
        let _ = tc.unify();
        let vars = tc.state().variables();
        for v in vars {
            let Ok(TE::Packed { types, .. }) = tc.type_of(v) else { continue };
            for span in types {
                if let Ok(TE::Packed { types: inner, .. }) = tc.type_of(span.typ()) {
                    if inner.iter().any(|i| i.offset_bits() + i.size_bits() > span.size_bits()) {
                        return Some(true);
                    }
                }
            }
        }
        Some(false)
    });
    matches!(r, Ok(Some(true)))
}

fn nested_family(code: &[u8], cfg: &VmCfg) -> bool {
    has_sub_word_of_narrower_sub_word(code, cfg) || has_packed_nested_beyond_its_span(code, cfg)
}

pub fn check_code(code: &[u8], permissive: bool, hostile_positions: bool, acc: &mut Acc) -> CaseResult {
    let case = json!({ "bytes": hex::encode(code), "permissive": permissive });
    let cfg = VmCfg {
        permissive,
        ..VmCfg::default()
    };
    let wd = CountingWatchdog::budget(3_000_000);
    let mut key = code.to_vec();
    key.push(permissive as u8);
    let layout = match guard(|| subj::analyze(code, &cfg, true, subj::dyn_wd(&wd))) {
        Err(p) => {
            acc.excluded("excluded_c01_panic");
            acc.note(format!("subject panicked (owned by C01): {}", p.signature()));
            return CaseResult::Pass;
        }
        Ok(Err(_)) => {
            if wd.fired() {
                acc.excluded("excluded_c03_budget");
            }
            acc.label("analysis-error");
            acc.mark(fnv64(&key), false);
            return CaseResult::Pass;
        }
        Ok(Ok(l)) => l,
    };
    acc.label("layout-ok");
    let slots = layout.slots();
    let mut multi = false;
    for w in slots.windows(2) {
        if w[0].index == w[1].index {
            multi = true;
        }
        // compared as 256-bit numbers by the harness' own arithmetic, not through the subject's `Ord`
        let (ia, ib) = (subj::from_u256(w[0].index.0), subj::from_u256(w[1].index.0));
        if ib.ult(ia) || (ia == ib && w[0].offset > w[1].offset) {
            return CaseResult::Fail(Violation::new(
                "layout entries are not ordered by (slot, offset)",
                format!("{:?} before {:?}", (w[0].index, w[0].offset), (w[1].index, w[1].offset)),
                case,
            ));
        }
    }
    acc.label_if(multi, "slot-with>=2-entries");
    acc.mark(fnv64(&key), multi || hostile_positions);
    for s in slots {
        acc.label_if(s.offset >= 128, "entry-at-offset>=128");
        if s.offset >= 256 {
            let nested = nested_family(code, &cfg);
            return CaseResult::Fail(Violation::new(
                if nested {
                    "a layout entry lies outside its 256-bit slot (a sub-word taken from a narrower sub-word)"
                } else {
                    "a layout entry starts outside its 256-bit slot"
                },
                format!("slot {:?} offset {} type {:?}", s.index, s.offset, s.typ),
                case,
            ));
        }
        if let Some(w) = width_of(&s.typ) {
            acc.label_if(s.offset + w == 256 && s.offset > 0, "entry-ending-at-256");
            if s.offset.saturating_add(w) > 256 {
                let nested = nested_family(code, &cfg);
                return CaseResult::Fail(Violation::new(
                    if nested {
                        "a layout entry lies outside its 256-bit slot (a sub-word taken from a narrower sub-word)"
                    } else {
                        "a layout entry ends outside its 256-bit slot"
                    },
                    format!("slot {:?} offset {} width {w} type {:?}", s.index, s.offset, s.typ),
                    case,
                ));
            }
        }
    }
    // the ordering requirement inside struct types (e.g. the value of a mapping): elements ordered by offset
    // without repeats
    fn walk_structs(t: &storage_layout_extractor::tc::abi::AbiType, out: &mut Vec<String>) {
        use storage_layout_extractor::tc::abi::AbiType as A;
        match t {
            A::Struct { elements } => {
                for w in elements.windows(2) {
                    if w[0].offset >= w[1].offset {
                        out.push(format!("struct elements are not in strictly increasing offset order: {} then {}", w[0].offset, w[1].offset));
                    }
                }
                // (offsets of struct elements count bits over all the words of the struct, so they are
                // not bounded by one word)
                for e in elements {
                    walk_structs(&e.typ, out);
                }
            }
            A::Array { tp, .. } | A::DynArray { tp } => walk_structs(tp, out),
            A::Mapping { key_type, value_type } => {
                walk_structs(key_type, out);
                walk_structs(value_type, out);
            }
            _ => {}
        }
    }
    for s in slots {
        let mut problems = vec![];
        walk_structs(&s.typ, &mut problems);
        if let Some(p) = problems.first() {
            acc.label("struct-type-problem");
            let nested = nested_family(code, &cfg);
            return CaseResult::Fail(Violation::new(
                if nested {
                    "a layout entry lies outside its 256-bit slot (a sub-word taken from a narrower sub-word)".to_string()
                } else if p.contains("order") {
                    "the elements of a struct type are not ordered by offset".to_string()
                } else {
                    "an element of a struct type ends outside the word".to_string()
                },
                format!("slot {:?}: {p}; type {:?}", s.index, s.typ),
                case,
            ));
        }
    }
    CaseResult::Pass
}

/// several plain slots whose indices order differently as whole words, by their low half, by their low
/// 64 bits or by their top byte
fn g_many_slots(ch: &mut Chooser) -> B {
    let pool: Vec<W> = vec![
        W::from_u64(1),
        W::from_u64(2),
        W::from_u64(u64::MAX),
        W::pow2(64),
        W::pow2(64).add(W::ONE),
        W::pow2(128),
        W::pow2(128).add(W::ONE),
        W::pow2(128).add(W::pow2(64)),
        W::pow2(192).add(W::from_u64(3)),
        W::pow2(248).sub(W::ONE),
        W::pow2(248),
        W::pow2(255),
        W::pow2(255).add(W::ONE),
        W::MAX,
        W::from_hex("0x360894a13ba1a3210667c828492db98dca3e2076cc3735a920a3ca505d382bbc").unwrap(),
        W::from_hex("0xb53127684a568b3173ae13b9f8a6016e243e63b6e8ee1178d6a717850b5d6103").unwrap(),
        W::from_hex("0xa3f0ad74e5423aebfd80d3ef4346578335a9a72aeaee59ff6cb3582b35133d50").unwrap(),
    ];
    let mut b = B::new();
    let n = ch.range(2, 7);
    for _ in 0..n {
        let slot = if ch.chance(1, 6) { ch.random_word() } else { *ch.pick(&pool) };
        if ch.chance(1, 2) {
            b.push(W::from_u64(4));
            b.emit(asm::CALLDATALOAD);
            b.push(slot);
            b.emit(asm::SSTORE);
        } else {
            b.push(slot);
            b.emit(asm::SLOAD);
            b.emit(asm::POP);
        }
    }
    b.emit(asm::STOP);
    b
}

/// sign extensions with constant operands around the word size, stored to constant slots: the width a
/// rule derives from such a constant must not describe more than the slot
fn g_signextend(ch: &mut Chooser) -> B {
    let mut b = B::new();
    for slot in 0..ch.range(1, 3) as u64 {
        let k = *ch.pick(&[0u64, 1, 15, 19, 30, 31, 32, 33, 63, 64, 127, 128, 255, 256, 257, 511, 512, 1 << 32, u64::MAX]);
        // both operand orders: the subject records SIGNEXTEND's operands in exchanged roles
        if ch.chance(1, 2) {
            b.push(W::from_u64(4));
            b.emit(asm::CALLDATALOAD);
            b.push(W::from_u64(k));
        } else {
            b.push(W::from_u64(k));
            b.push(W::from_u64(4));
            b.emit(asm::CALLDATALOAD);
        }
        b.emit(asm::SIGNEXTEND);
        if ch.chance(1, 3) {
            b.push(W::from_u64(*ch.pick(&[8u64, 128, 248])));
            b.emit(asm::SHL);
        }
        b.push(W::from_u64(slot));
        b.emit(asm::SSTORE);
    }
    b.emit(asm::STOP);
    b
}

fn run_shard(ctx: &ShardCtx, acc: &mut Acc) {
    let tier = ctx.tier;
    drive(ctx, "layouts", tier.pick(60_000, 300_000), 900, acc, &|ch, acc| {
        let permissive = ch.chance(1, 3);
        let (name, code, hostile): (&str, Vec<u8>, bool) = match ch.below(10) {
            6 if ch.chance(1, 2) => ("many-slots", g_many_slots(ch).code(), true),
            0..=2 => ("packed-edge", g_packed_edge(ch).code(), true),
            3..=5 => ("hostile-idiom", g_hostile_idiom(ch).code(), true),
            6 | 7 => {
                let t = idiom::gen_truth(ch, 8);
                ("idiom", asm::assemble(&idiom::compile(&t, 0xa0b0_0000)), false)
            }
            8 if ch.chance(1, 2) => ("signextend", g_signextend(ch).code(), true),
            8 => ("struct", gen::g_struct(ch, 60).code(), false),
            _ => ("mutreal", gen::g_mutreal(ch, tier.pick(300, 1500)).1, false),
        };
        acc.label(&format!("gen:{name}"));
        acc.sample(|| json!({ "generator": name, "bytes": hex::encode(&code[..code.len().min(160)]), "len": code.len() }));
        check_code(&code, permissive, hostile, acc)
    });
}

fn replay(case: &Value, acc: &mut Acc) -> CaseResult {
    let code = hex::decode(case["bytes"].as_str().expect("replay case: bytes")).expect("replay case: hex");
    check_code(&code, case["permissive"].as_bool().unwrap_or(false), true, acc)
}

//! C08 — control flow is followed exactly as the EVM allows, and both branches are taken.

use crate::{
    asm,
    core::{drive, fnv64, guard, Acc, CaseResult, ShardCtx, Tier, Violation},
    decode::Kind,
    evmref::{self, End, RefCfg},
    gen::{g_cf, CfOpts, MARKER_BASE},
    props::PropDef,
    refword::W,
    subj::{self, VmCfg},
};
use serde_json::{json, Value};
use std::collections::{BTreeMap, BTreeSet};

pub fn def() -> PropDef {
    PropDef {
        id: "C08",
        level: "exploration",
        rule: "programs of 2-8 basic blocks, each starting with (or deliberately without) a JUMPDEST and a marker SSTORE to a slot \
               unique to the block, ended by: fall-through, JUMP/JUMPI to a label, to 0x5b bytes inside push data, to a \
               non-JUMPDEST instruction, out of range, to 2^32 + a valid label, to a computed constant, to a symbolic value, or by \
               STOP/RETURN/REVERT/SELFDESTRUCT/INVALID/an unassigned byte. Oracle: executed offsets (union over the VM's states) \
               are a subset of the reference EVM's reachable offsets; for loop-free programs within the limits they are exactly \
               that set (minus JUMPDESTs only ever landed on by JUMP); no marker slot of an unreachable block is reported. \
               distinct = hash of the bytecode; non-trivial = an invalid-target kind or a halting opcode with code behind it",
        assumptions: &[
            "reference both-branches EVM (harness/src/evmref.rs) with a per-path visit limit one above the subject's",
            "SELFDESTRUCT ends the path (EVM semantics)",
        ],
        run_shard,
        replay,
        describe: None,
        health,
        exhaustive: None,
    }
}

fn health(acc: &Acc, _t: Tier) -> Vec<String> {
    crate::props::require_labels(
        acc,
        &[
            ("jump:push-data", 50),
            ("jumpi:push-data", 50),
            ("jump:out-of-range", 50),
            ("jumpi:out-of-range", 50),
            ("jump:high-bits", 50),
            ("jumpi:high-bits", 50),
            ("computed-target", 100),
            ("jump:symbolic", 50),
            ("jumpi:symbolic", 50),
            ("halt:stop", 100),
            ("halt:return/revert", 100),
            ("halt:selfdestruct", 50),
            ("halt:invalid", 50),
            ("halt:unassigned", 100),
            ("dead-code", 500),
            ("loop-free-exact", 1000),
            ("back-edge", 200),
        ],
    )
}

pub fn check_code(code: &[u8], features: &[&str], acc: &mut Acc) -> CaseResult {
    let case = json!({ "bytes": hex::encode(code) });
    let fail = |sig: String, detail: String| CaseResult::Fail(Violation::new(sig, detail, case.clone()));
    let cfg = VmCfg {
        permissive: true,
        ..VmCfg::default()
    };
    let wd = subj::CountingWatchdog::budget(3_000_000);
    let run = match guard(|| subj::run_vm(code, &cfg, subj::dyn_wd(&wd))) {
        Err(p) => {
            acc.excluded("excluded_c01_panic");
            acc.note(format!("subject panicked (owned by C01): {}", p.signature()));
            return CaseResult::Pass;
        }
        Ok(Err(e)) => return fail("the VM could not be set up for a generated program".into(), e),
        Ok(Ok(r)) => r,
    };
    if wd.fired() {
        acc.excluded("excluded_c03_budget");
        return CaseResult::Pass;
    }
    for f in features {
        acc.label(f);
    }
    let gas = run.gas.clone();
    let gas_of = |i: usize| gas.get(i).copied().unwrap_or(0);
    let rr = evmref::run(
        code,
        &RefCfg {
            gas_of: &gas_of,
            gas_limit: cfg.gas_limit as u64,
            visit_limit: cfg.iterations + 1,
            max_paths: 4_000,
            max_steps: 1_500_000,
            selfdestruct_halts: true,
        },
    );
    if !rr.complete {
        acc.excluded("reference_budget");
        return CaseResult::Pass;
    }
    let kinds = &rr.kinds;
    let starts: Vec<usize> = (0..code.len()).filter(|i| kinds[*i] == Kind::Start).collect();
    // observed
    let mut observed = BTreeSet::new();
    for s in &run.states {
        for o in &starts {
            if s.visited_instructions().visit_count(*o as u32).unwrap_or(0) > 0 {
                observed.insert(*o);
            }
        }
    }
    // push data: the subject steps over the bytes of an immediate as no-ops right after its PUSH, so on
    // every path a data byte is visited exactly as often as the PUSH it belongs to; more often means it
    // was reached some other way (a jump into push data, or data decoded as code)
    for s in &run.states {
        let mut push_at = 0usize;
        for o in 0..code.len() {
            match kinds[o] {
                Kind::Start => push_at = o,
                _ => {
                    let vd = s.visited_instructions().visit_count(o as u32).unwrap_or(0);
                    let vp = s.visited_instructions().visit_count(push_at as u32).unwrap_or(0);
                    if vd > vp {
                        return fail(
                            "executed an offset the EVM cannot reach: push data was executed as code".into(),
                            format!("offset {o} (data of the PUSH at {push_at}) was visited {vd} times, the PUSH {vp} times"),
                        );
                    }
                }
            }
        }
    }
    // reference sets
    let mut may = BTreeSet::new();
    let mut not_only_landed: BTreeSet<usize> = BTreeSet::new();
    let mut max_visit = 0usize;
    let mut forks_to: BTreeMap<usize, usize> = BTreeMap::new();
    for p in &rr.paths {
        let mut counts: BTreeMap<usize, usize> = BTreeMap::new();
        let mut landed: BTreeMap<usize, usize> = BTreeMap::new();
        for o in &p.landed_by_jump {
            *landed.entry(*o).or_default() += 1;
        }
        for o in &p.executed {
            may.insert(*o);
            *counts.entry(*o).or_default() += 1;
        }
        for (o, c) in &counts {
            max_visit = max_visit.max(*c);
            if *c > landed.get(o).copied().unwrap_or(0) {
                not_only_landed.insert(*o);
            }
        }
        let _ = &mut forks_to;
    }
    // forks per target (each taken branch creates one path)
    for p in &rr.paths {
        if let Some(at) = p.taken_at.last() {
            // the target is the first offset executed after the fork; find it via the path's executed list
            if let Some(pos) = p.executed.iter().rposition(|o| o == at) {
                if let Some(t) = p.executed.get(pos + 1) {
                    *forks_to.entry(*t).or_default() += 1;
                }
            }
        }
    }
    let budget_paths = rr.paths.iter().any(|p| matches!(p.end, End::Budget));
    let loop_free = max_visit <= 1 && !budget_paths;
    let within = forks_to.values().all(|c| *c <= cfg.forks)
        && rr.paths.iter().all(|p| p.gas_error_at.is_none() && p.gas * 2 + 1000 < cfg.gas_limit as u64);
    let invalid_kind = features.iter().any(|f| {
        f.contains("push-data") || f.contains("out-of-range") || f.contains("high-bits") || f.contains("non-jumpdest") || f.contains("symbolic")
    });
    let halting = features.iter().any(|f| f.starts_with("halt:"));
    let dead: Vec<usize> = starts.iter().copied().filter(|o| !may.contains(o)).collect();
    acc.label_if(!dead.is_empty(), "dead-code");
    acc.mark(fnv64(code), (invalid_kind || halting) && !dead.is_empty());
    acc.max("max_reference_paths", rr.paths.len() as u64);

    // (1) Observed ⊆ may
    if let Some(o) = observed.iter().find(|o| !may.contains(o)) {
        let prev = starts.iter().rev().find(|s| **s < *o).copied();
        let why = classify_extra(code, *o, prev, &rr);
        return fail(
            format!("executed an offset the EVM cannot reach: {why}"),
            format!("offset {o} (opcode {:#04x}) was executed; reference reachable set: {:?}", code[*o], may),
        );
    }
    // (2) must ⊆ Observed for loop-free programs within the limits
    if loop_free && within {
        acc.label("loop-free-exact");
        for o in &may {
            let is_jumpdest = code[*o] == 0x5b;
            if is_jumpdest && !not_only_landed.contains(o) {
                continue; // only ever landed on by JUMP: the subject steps past it
            }
            if !observed.contains(o) {
                let why = classify_missing(code, *o, &rr);
                return fail(
                    format!("a reachable offset was never executed: {why}"),
                    format!("offset {o} (opcode {:#04x}) is reachable in the EVM but no state visited it", code[*o]),
                );
            }
        }
    }
    CaseResult::Pass
}

fn classify_extra(code: &[u8], o: usize, prev: Option<usize>, rr: &evmref::RefRun) -> String {
    // was the previous instruction a halting one that the reference stopped at?
    if let Some(p) = prev {
        let b = code[p];
        if rr.paths.iter().any(|path| path.end_offset == p && path.executed.last() == Some(&p)) {
            let name = match b {
                0x00 => "STOP".to_string(),
                0xf3 => "RETURN".to_string(),
                0xfd => "REVERT".to_string(),
                0xff => "SELFDESTRUCT".to_string(),
                0xfe => "INVALID".to_string(),
                0x56 => "a JUMP whose target is invalid".to_string(),
                x if !crate::decode::assigned(x) => "an unassigned byte".to_string(),
                x => format!("opcode {x:#04x} (path ended there in the EVM)"),
            };
            if code[o] != 0x5b || !jump_targets_here(code, o) {
                return format!("code after {name} was executed");
            }
        }
    }
    if code[o] == 0x5b {
        return "a jump was taken to a JUMPDEST that no EVM-valid jump targets (truncated or otherwise invalid target)".into();
    }
    "a jump was taken to an offset that is not a JUMPDEST instruction".into()
}

fn jump_targets_here(code: &[u8], o: usize) -> bool {
    // does any PUSH immediate, truncated to 32 bits, name this offset?
    let kinds = crate::decode::classify(code);
    for (i, k) in kinds.iter().enumerate() {
        if *k == Kind::Start {
            let n = crate::decode::push_len(code[i]);
            if n > 0 && i + 1 + n <= code.len() {
                let w = W::from_be_slice(&code[i + 1..i + 1 + n]);
                if (w.low_u64() & 0xffff_ffff) as usize == o {
                    return true;
                }
            }
        }
    }
    false
}

fn classify_missing(code: &[u8], o: usize, rr: &evmref::RefRun) -> String {
    // find how the reference got there
    for p in &rr.paths {
        if let Some(pos) = p.executed.iter().position(|x| *x == o) {
            if pos == 0 {
                return "the entry point".into();
            }
            let prev = p.executed[pos - 1];
            return match code[prev] {
                0x57 if o == prev + 1 => "the fall-through of a JUMPI".into(),
                0x57 => "the target of a JUMPI".into(),
                0x56 => "the target of a JUMP".into(),
                x => format!("the successor of opcode {x:#04x}"),
            };
        }
    }
    "?".into()
}

/// second observable: marker slots of unreachable blocks must not be reported
fn check_markers(code: &[u8], acc: &mut Acc) -> CaseResult {
    let case = json!({ "bytes": hex::encode(code), "markers": true });
    let cfg = VmCfg {
        permissive: true,
        ..VmCfg::default()
    };
    let gas_of = |_: usize| 1u64;
    let rr = evmref::run(
        code,
        &RefCfg {
            gas_of: &gas_of,
            gas_limit: u64::MAX,
            visit_limit: cfg.iterations + 1,
            max_paths: 4_000,
            max_steps: 1_500_000,
            selfdestruct_halts: true,
        },
    );
    if !rr.complete {
        return CaseResult::Pass;
    }
    // marker keys written on some reference path
    let mut live = BTreeSet::new();
    for p in &rr.paths {
        for (k, _, _) in &p.sstores {
            if let Some(w) = k.w {
                live.insert(w);
            }
        }
    }
    let wd = subj::CountingWatchdog::budget(3_000_000);
    let r = guard(|| subj::analyze(code, &cfg, true, subj::dyn_wd(&wd)));
    match r {
        Err(_) => {
            acc.excluded("excluded_c01_panic");
            CaseResult::Pass
        }
        Ok(Err(_)) => {
            acc.label("markers:analysis-error");
            CaseResult::Pass
        }
        Ok(Ok(layout)) => {
            acc.label("markers:checked");
            for s in layout.slots() {
                let idx = subj::from_u256(s.index.0);
                if let Some(v) = idx.as_u64_checked() {
                    if (MARKER_BASE..MARKER_BASE + 64).contains(&v) && !live.contains(&idx) {
                        return CaseResult::Fail(Violation::new(
                            "the layout reports the marker slot of a block the EVM cannot reach",
                            format!("slot {idx} is only written in dead code"),
                            case,
                        ));
                    }
                }
            }
            CaseResult::Pass
        }
    }
}

fn run_shard(ctx: &ShardCtx, acc: &mut Acc) {
    drive(ctx, "cf", ctx.tier.pick(120_000, 500_000), 600, acc, &|ch, acc| {
        let back = ch.chance(1, 4);
        let p = g_cf(
            ch,
            &CfOpts {
                back_edges: back,
                faults: false,
                trunc_tail: true,
                max_blocks: 8,
            },
        );
        let code = p.b.code();
        acc.sample(|| json!({ "bytes": hex::encode(&code), "features": p.features, "asm": asm::disasm(&code) }));
        match check_code(&code, &p.features, acc) {
            CaseResult::Pass => {}
            f => return f,
        }
        if ch.chance(1, 4) {
            return check_markers(&code, acc);
        }
        CaseResult::Pass
    });
}

fn replay(case: &Value, acc: &mut Acc) -> CaseResult {
    let code = hex::decode(case["bytes"].as_str().expect("replay case: bytes")).expect("replay case: hex");
    if case["markers"].as_bool().unwrap_or(false) {
        return check_markers(&code, acc);
    }
    match check_code(&code, &[], acc) {
        CaseResult::Pass => check_markers(&code, acc),
        f => f,
    }
}

//! C04 — standard storage idioms are recovered with the right slot, kind and packing.

use crate::{
    asm,
    core::{drive, fnv64, guard, Acc, CaseResult, ShardCtx, Tier, Violation},
    idiom::{self, Kind, Truth, Var},
    props::PropDef,
    refword::W,
    subj::{self, VmCfg},
};
use serde_json::{json, Value};
use storage_layout_extractor::{layout::StorageSlot, tc::abi::AbiType};

pub fn def() -> PropDef {
    PropDef {
        id: "C04",
        level: "exploration",
        rule: "ground-truth layouts of 1-12 variables (plain word, address-masked word, mapping of depth 1-4 with address or word \
               keys and word or address values, dynamic array with the element base hashed at run time or pre-folded, packed word \
               split at byte boundaries into 2-6 fields accessed by MUL/DIV or SHL/SHR), slot numbers small, >= 2^64, >= 2^128, \
               hashed constants and random, each variable read, written or both in separate branches behind a selector dispatcher \
               (three shapes); analysed with the shipped default configuration. Oracle = the ground truth: for every variable the \
               layout must contain an entry of the right kind at the right slot (mapping nesting depth, 20-byte keys/values where \
               the code masks to 160 bits, dynamic array, packed entries at the right bit offsets with the right widths). distinct \
               = hash of the bytecode; non-trivial = >= 2 variables of different kinds, or a mapping of depth >= 2, or a packed \
               word with >= 3 fields, or a slot >= 2^64",
        assumptions: &[
            "only presence with the right kind is demanded: extra rows, the exact word usage and types the code never constrains are not",
            "a packed field the code only reads is expected at its offset with its width; fields never touched are not expected",
        ],
        run_shard,
        replay,
        describe: None,
        health,
        exhaustive: None,
    }
}

fn health(acc: &Acc, _t: Tier) -> Vec<String> {
    crate::props::require_labels(
        acc,
        &[
            ("kind:plain", 300),
            ("kind:addr", 300),
            ("kind:mapping-depth1", 200),
            ("kind:mapping-depth2", 100),
            ("kind:mapping-depth3+", 50),
            ("kind:dyn-array", 200),
            ("kind:dyn-array-prefolded", 50),
            ("kind:packed", 200),
            ("slot>=2^64", 300),
            ("read-only-var", 300),
            ("write-only-var", 300),
            ("analysis-ok", 2000),
        ],
    )
}

pub fn is_20_bytes(t: &AbiType) -> bool {
    matches!(
        t,
        AbiType::Address
            | AbiType::Bytes { length: Some(20) }
            | AbiType::UInt { size: Some(160) }
            | AbiType::Int { size: Some(160) }
            | AbiType::Number { size: Some(160) }
            | AbiType::Bits { length: Some(160) }
    )
}

pub fn width_of(t: &AbiType) -> Option<usize> {
    match t {
        AbiType::Bool => Some(8),
        AbiType::Selector => Some(32),
        AbiType::Address => Some(160),
        AbiType::Function => Some(192),
        AbiType::UInt { size } | AbiType::Int { size } | AbiType::Number { size } => *size,
        AbiType::Bytes { length } => length.map(|l| l * 8),
        AbiType::Bits { length } => *length,
        _ => None,
    }
}

fn entries_at<'a>(slots: &'a [StorageSlot], slot: W) -> Vec<&'a StorageSlot> {
    slots.iter().filter(|s| subj::from_u256(s.index.0) == slot).collect()
}

/// What the layout must show for a variable; Err(description) when it does not.
pub fn expect_var(slots: &[StorageSlot], v: &Var) -> Result<(), (String, String)> {
    let here = entries_at(slots, v.slot);
    let describe = |e: &[&StorageSlot]| format!("{:?}", e.iter().map(|s| (s.offset, &s.typ)).collect::<Vec<_>>());
    if here.is_empty() {
        return Err((format!("{} variable: no entry at its slot", kind_name(&v.kind)), format!("slot {}", v.slot)));
    }
    match &v.kind {
        Kind::Plain => {
            let e0 = here.iter().find(|s| s.offset == 0);
            match e0 {
                Some(s) if !matches!(s.typ, AbiType::Mapping { .. } | AbiType::DynArray { .. } | AbiType::Struct { .. } | AbiType::ConflictedType { .. }) => Ok(()),
                _ => Err(("plain word: entry at offset 0 is missing or of a constructed kind".into(), describe(&here))),
            }
        }
        Kind::MappingStruct { key_addr, fields, .. } => {
            let Some(s) = here.iter().find(|s| s.offset == 0) else {
                return Err(("mapping of structs: no entry at offset 0".into(), describe(&here)));
            };
            let AbiType::Mapping { key_type, value_type } = &s.typ else {
                return Err(("mapping of structs: the entry is not a mapping".into(), format!("{:?}", s.typ)));
            };
            if *key_addr && !is_20_bytes(key_type) {
                return Err((
                    "mapping: a key masked to 160 bits is not reported as a 20-byte quantity".into(),
                    format!("{:?}", s.typ),
                ));
            }
            let elements: Vec<(usize, Option<usize>)> = match &**value_type {
                AbiType::Struct { elements } => elements.iter().map(|e| (e.offset, width_of(&e.typ))).collect(),
                other => vec![(0, width_of(other))],
            };
            for (o, w) in fields {
                match elements.iter().find(|(eo, _)| eo == o) {
                    Some((_, ew)) if *ew == Some(*w) => {}
                    Some((_, ew)) => {
                        return Err((
                            "mapping of structs: a field of the value is reported with a different width".into(),
                            format!("field ({o},{w}) reported with width {ew:?}; value type {value_type:?}"),
                        ))
                    }
                    None => {
                        return Err((
                            "mapping of structs: a field of the value has no element at its bit offset".into(),
                            format!("field ({o},{w}); value type {value_type:?}"),
                        ))
                    }
                }
            }
            Ok(())
        }
        Kind::Scaled { .. } => {
            // one value fills the word: nothing may be reported at a bit offset the code never uses
            match here.iter().find(|s| s.offset != 0) {
                Some(s) => Err((
                    "scaled word: a field is reported at a bit offset although the code multiplies by a constant that is not a power of two".into(),
                    format!("entry at offset {}: {:?}; all: {}", s.offset, s.typ, describe(&here)),
                )),
                None => Ok(()),
            }
        }
        Kind::Addr => match here.iter().find(|s| s.offset == 0) {
            Some(s) if is_20_bytes(&s.typ) => Ok(()),
            _ => Err(("address-masked word: no 20-byte entry at offset 0".into(), describe(&here))),
        },
        Kind::Mapping { keys, value_addr, const_key } => {
            let Some(s) = here.iter().find(|s| s.offset == 0) else {
                return Err(("mapping: no entry at offset 0".into(), describe(&here)));
            };
            let mut t = &s.typ;
            for (i, k) in keys.iter().enumerate() {
                match t {
                    AbiType::Mapping { key_type, value_type } => {
                        if *k && !is_20_bytes(key_type) {
                            return Err((
                                "mapping: a key masked to 160 bits is not reported as a 20-byte quantity".into(),
                                format!("level {i}: {:?}", s.typ),
                            ));
                        }
                        t = value_type;
                    }
                    _ => {
                        return Err((
                            format!("mapping: nesting depth is less than the code's (declared depth {})", keys.len().min(4)),
                            format!("level {i}: {:?}", s.typ),
                        ))
                    }
                }
            }
            if matches!(t, AbiType::Mapping { .. }) {
                return Err(("mapping: nesting depth is greater than the code's".into(), format!("{:?}", s.typ)));
            }
            if *value_addr && !is_20_bytes(t) {
                return Err((
                    "mapping: a value masked to 160 bits is not reported as a 20-byte quantity".into(),
                    format!("{:?}", s.typ),
                ));
            }
            Ok(())
        }
        Kind::DynArray { .. } => match here.iter().find(|s| s.offset == 0) {
            Some(s) if matches!(s.typ, AbiType::DynArray { .. }) => Ok(()),
            _ => Err(("dynamic array: no dynamic-array entry at offset 0".into(), describe(&here))),
        },
        Kind::Packed { fields, .. } => {
            for (o, w) in fields {
                match here.iter().find(|s| s.offset == *o) {
                    Some(s) if width_of(&s.typ) == Some(*w) => {}
                    Some(s) => {
                        return Err((
                            "packed word: a field is reported with a different width".into(),
                            format!("field ({o},{w}): {:?}; all: {}", s.typ, describe(&here)),
                        ))
                    }
                    None => {
                        return Err((
                            "packed word: a field the code touches has no entry at its bit offset".into(),
                            format!("field ({o},{w}); all: {}", describe(&here)),
                        ))
                    }
                }
            }
            Ok(())
        }
    }
}

fn kind_name(k: &Kind) -> &'static str {
    match k {
        Kind::Plain => "plain",
        Kind::Scaled { .. } => "scaled",
        Kind::MappingStruct { .. } => "mapping-of-structs",
        Kind::Addr => "address-masked",
        Kind::Mapping { .. } => "mapping",
        Kind::DynArray { .. } => "dynamic-array",
        Kind::Packed { .. } => "packed",
    }
}

pub fn label_truth(t: &Truth, acc: &mut Acc) -> bool {
    let mut kinds = std::collections::BTreeSet::new();
    let mut nontrivial = false;
    for v in &t.vars {
        match &v.kind {
            Kind::Plain => acc.label("kind:plain"),
            Kind::Scaled { .. } => acc.label("kind:scaled"),
            Kind::MappingStruct { fields, .. } => {
                acc.label("kind:mapping-of-structs");
                nontrivial |= fields.len() >= 3;
            }
            Kind::Addr => acc.label("kind:addr"),
            Kind::Mapping { keys, const_key, .. } => {
                acc.label_if(const_key.is_some(), "kind:mapping-constant-key");
                acc.label(match keys.len() {
                    1 => "kind:mapping-depth1",
                    2 => "kind:mapping-depth2",
                    _ => "kind:mapping-depth3+",
                });
                nontrivial |= keys.len() >= 2;
            }
            Kind::DynArray { prefolded } => {
                acc.label("kind:dyn-array");
                acc.label_if(*prefolded, "kind:dyn-array-prefolded");
            }
            Kind::Packed { fields, whole, .. } => {
                acc.label("kind:packed");
                acc.label_if(*whole != 0 && v.write, "kind:packed-one-store");
                nontrivial |= fields.len() >= 3;
            }
        }
        kinds.insert(kind_name(&v.kind));
        if v.slot.bits() > 64 {
            acc.label("slot>=2^64");
            nontrivial = true;
        }
        acc.label_if(v.read && !v.write, "read-only-var");
        acc.label_if(!v.read && v.write, "write-only-var");
    }
    nontrivial || kinds.len() >= 2
}

pub fn check_truth(t: &Truth, acc: &mut Acc) -> CaseResult {
    let code = asm::assemble(&idiom::compile(t, 0xa0b0_0000));
    let case = json!({ "truth": t, "bytes": hex::encode(&code) });
    let nontrivial = label_truth(t, acc);
    acc.mark(fnv64(&code), nontrivial);
    // well-formed programs: strict mode, the shipped default configuration
    let r = guard(|| subj::analyze(&code, &VmCfg::default(), false, subj::lazy()));
    let layout = match r {
        Err(p) => {
            acc.excluded("excluded_c01_panic");
            acc.note(format!("subject panicked (owned by C01): {}", p.signature()));
            return CaseResult::Pass;
        }
        Ok(Err(e)) => {
            return CaseResult::Fail(Violation::new(
                "analysis of a well-formed idiom program fails".to_string(),
                format!("{:?}", subj::error_kinds(&e)),
                case,
            ))
        }
        Ok(Ok(l)) => l,
    };
    acc.label("analysis-ok");
    for v in &t.vars {
        if let Err((what, detail)) = expect_var(layout.slots(), v) {
            let access = match (v.read, v.write) {
                (true, true) => "read+write",
                (true, false) => "read-only",
                _ => "write-only",
            };
            return CaseResult::Fail(Violation::new(
                format!("{what} ({access})"),
                format!("variable {v:?}: {detail}\nlayout: {}", subj::layout_json(&layout)),
                case,
            ));
        }
    }
    CaseResult::Pass
}

fn run_shard(ctx: &ShardCtx, acc: &mut Acc) {
    drive(ctx, "layouts", ctx.tier.pick(2_500, 30_000), 300, acc, &|ch, acc| {
        let t = idiom::gen_truth(ch, 12);
        acc.sample(|| json!({ "truth": t }));
        check_truth(&t, acc)
    });
}

fn replay(case: &Value, acc: &mut Acc) -> CaseResult {
    let t: Truth = serde_json::from_value(case["truth"].clone()).expect("replay case: truth");
    check_truth(&t, acc)
}

//! C19 — the union-find forest and its vector map match their abstract models.

use crate::{
    core::{drive, fnv64, guard, Acc, CaseResult, Chooser, ShardCtx, Tier, Violation, SHARDS},
    props::PropDef,
};
use serde::{Deserialize, Serialize};
use serde_json::{json, Value};
use std::collections::{BTreeMap, BTreeSet, HashSet};
use storage_layout_extractor::data::{combine::Combine, disjoint_set::DisjointSet, vector_map::VectorMap};

pub fn def() -> PropDef {
    PropDef {
        id: "C19",
        level: "exploration",
        rule: "operation sequences driven in lock-step with reference models, all observers after every step. Exhaustive DFS: \
               DisjointSet over a 4-element universe with the full 40-operation alphabet (insert, union in both orders incl. \
               self-unions, add_data, set_data, find) to length 4 (quick) / 5 (thorough) and over 3 elements (21 operations) to \
               length 5 / 6, for two data monoids (HashSet<u32>, and a non-idempotent multiset so that duplication shows); \
               VectorMap over 4 keys + 1 never-inserted key (17 operations) to length 5 / 6. Random sequences to length 400 over 64 \
               elements. distinct = hash of the operation sequence; non-trivial = the sequence unions two non-singleton classes \
               with data on both sides, or overwrites a key, or removes an absent key, or re-inserts a joined element",
        assumptions: &[
            "reference models: a vector of (element set, multiset) classes; a BTreeMap",
            "an absent data value and the monoid identity are identified",
        ],
        run_shard,
        replay,
        describe: None,
        health,
        exhaustive: Some(true),
    }
}

fn health(acc: &Acc, _t: Tier) -> Vec<String> {
    crate::props::require_labels(
        acc,
        &[
            ("ds:union-two-nonsingletons-with-data", 200),
            ("ds:union-already-joined", 200),
            ("ds:self-union", 200),
            ("ds:op-on-never-inserted", 200),
            ("ds:reinsert-joined", 100),
            ("vm:overwrite", 200),
            ("vm:remove-absent-in-range", 200),
            ("vm:remove-absent-out-of-range", 100),
            ("random-seq-len>=100", 50),
        ],
    )
}

// ------------------------------------------------------------------------------------------------
// data monoids
// ------------------------------------------------------------------------------------------------

/// commutative, associative, NOT idempotent
#[derive(Clone, Debug, Default, PartialEq, Eq)]
pub struct Multi(pub BTreeMap<u32, u32>);

impl Combine for Multi {
    fn combine(mut self, other: Self) -> Self {
        for (k, v) in other.0 {
            *self.0.entry(k).or_default() += v;
        }
        self
    }
    fn identity() -> Self {
        Multi(BTreeMap::new())
    }
}

pub trait Mono: Combine + std::fmt::Debug + Default + Eq + PartialEq + Clone {
    fn single(x: u32) -> Self;
    /// canonical multiset view; `idempotent` monoids collapse counts
    fn view(&self) -> BTreeMap<u32, u32>;
    const IDEMPOTENT: bool;
    const NAME: &'static str;
}
impl Mono for Multi {
    fn single(x: u32) -> Self {
        Multi(BTreeMap::from([(x, 1)]))
    }
    fn view(&self) -> BTreeMap<u32, u32> {
        self.0.clone()
    }
    const IDEMPOTENT: bool = false;
    const NAME: &'static str = "multiset";
}
impl Mono for HashSet<u32> {
    fn single(x: u32) -> Self {
        HashSet::from([x])
    }
    fn view(&self) -> BTreeMap<u32, u32> {
        self.iter().map(|k| (*k, 1)).collect()
    }
    const IDEMPOTENT: bool = true;
    const NAME: &'static str = "hashset";
}

// ------------------------------------------------------------------------------------------------
// DisjointSet: operations, model, lock-step
// ------------------------------------------------------------------------------------------------

#[derive(Clone, Copy, Debug, PartialEq, Eq, Hash, Serialize, Deserialize)]
pub enum DsOp {
    Insert(usize),
    Union(usize, usize),
    AddData(usize, u32),
    SetData(usize, u32),
    Find(usize),
    GetData(usize),
}

/// data code of the monoid identity
const EMPTY: u32 = u32::MAX;

#[derive(Clone, Debug, Default)]
struct DsModel {
    /// classes: members + data multiset (empty = none)
    classes: Vec<(BTreeSet<usize>, BTreeMap<u32, u32>)>,
}

impl DsModel {
    fn class_of(&self, x: usize) -> Option<usize> {
        self.classes.iter().position(|(m, _)| m.contains(&x))
    }
    fn touch(&mut self, x: usize) -> usize {
        match self.class_of(x) {
            Some(i) => i,
            None => {
                self.classes.push((BTreeSet::from([x]), BTreeMap::new()));
                self.classes.len() - 1
            }
        }
    }
    fn combine(a: &mut BTreeMap<u32, u32>, b: BTreeMap<u32, u32>, idem: bool) {
        for (k, v) in b {
            let e = a.entry(k).or_default();
            *e = if idem { 1 } else { *e + v };
        }
    }
    fn apply(&mut self, op: DsOp, idem: bool) {
        match op {
            DsOp::Insert(x) | DsOp::Find(x) | DsOp::GetData(x) => {
                self.touch(x);
            }
            DsOp::Union(a, b) => {
                let ia = self.touch(a);
                let ib = self.touch(b);
                if ia != ib {
                    let (mb, db) = self.classes[ib].clone();
                    self.classes[ia].0.extend(mb);
                    Self::combine(&mut self.classes[ia].1, db, idem);
                    self.classes.remove(ib);
                }
            }
            // the data code EMPTY stands for the monoid identity (an empty set / multiset)
            DsOp::AddData(x, EMPTY) => {
                self.touch(x);
            }
            DsOp::SetData(x, EMPTY) => {
                let i = self.touch(x);
                self.classes[i].1 = BTreeMap::new();
            }
            DsOp::AddData(x, d) => {
                let i = self.touch(x);
                Self::combine(&mut self.classes[i].1, BTreeMap::from([(d, 1)]), idem);
            }
            DsOp::SetData(x, d) => {
                let i = self.touch(x);
                self.classes[i].1 = BTreeMap::from([(d, 1)]);
            }
        }
    }
}

fn apply_impl<D: Mono>(ds: &mut DisjointSet<usize, D>, op: DsOp) {
    match op {
        DsOp::Insert(x) => ds.insert(x),
        DsOp::Union(a, b) => ds.union(&a, &b),
        DsOp::AddData(x, EMPTY) => ds.add_data(&x, D::identity()),
        DsOp::SetData(x, EMPTY) => ds.set_data(&x, D::identity()),
        DsOp::AddData(x, d) => ds.add_data(&x, D::single(d)),
        DsOp::SetData(x, d) => ds.set_data(&x, D::single(d)),
        DsOp::Find(x) => {
            let _ = ds.find(&x);
        }
        DsOp::GetData(x) => {
            let _ = ds.get_data(&x);
        }
    }
}

/// compare all observers on a clone (so that observation does not perturb the history)
fn observe<D: Mono>(ds: &DisjointSet<usize, D>, model: &DsModel) -> Option<String> {
    let mut c = ds.clone();
    let known: Vec<usize> = model.classes.iter().flat_map(|(m, _)| m.iter().copied()).collect();
    // partition
    let roots: BTreeMap<usize, usize> = known.iter().map(|x| (*x, c.find(x))).collect();
    for x in &known {
        for y in &known {
            let same_impl = roots[x] == roots[y];
            let same_model = model.class_of(*x) == model.class_of(*y);
            if same_impl != same_model {
                return Some(format!(
                    "partition differs: find({x})={} find({y})={} but the model says same-class={same_model}",
                    roots[x], roots[y]
                ));
            }
        }
    }
    // data per class through every member
    for (members, data) in &model.classes {
        for x in members {
            let got = c.get_data(x).map(|d| d.view()).unwrap_or_default();
            if got != *data {
                return Some(format!("data of the class of {x} is {got:?}, the model has {data:?}"));
            }
        }
    }
    // sets(): each class exactly once, with its data
    let sets = c.sets();
    let mut seen = BTreeSet::new();
    for (rep, data) in &sets {
        let Some(ci) = model.class_of(*rep) else {
            return Some(format!("sets() lists representative {rep} which is in no model class"));
        };
        if !seen.insert(ci) {
            return Some(format!("sets() lists the class of {rep} more than once"));
        }
        if data.view() != model.classes[ci].1 {
            return Some(format!(
                "sets() reports data {:?} for the class of {rep}, the model has {:?}",
                data.view(),
                model.classes[ci].1
            ));
        }
    }
    if seen.len() != model.classes.len() {
        return Some(format!("sets() lists {} classes, the model has {}", seen.len(), model.classes.len()));
    }
    // values(): exactly the known elements
    let vals: BTreeSet<usize> = ds.values().into_iter().collect();
    let want: BTreeSet<usize> = known.iter().copied().collect();
    if vals != want {
        return Some(format!("values() = {vals:?}, the model knows {want:?}"));
    }
    None
}

fn ds_step_label(model: &DsModel, op: DsOp, acc: &mut Acc) -> bool {
    // returns "non-trivial step"
    match op {
        DsOp::Union(a, b) => {
            let (ca, cb) = (model.class_of(a), model.class_of(b));
            if ca.is_none() || cb.is_none() {
                acc.label("ds:op-on-never-inserted");
            }
            if a == b {
                acc.label("ds:self-union");
            }
            match (ca, cb) {
                (Some(x), Some(y)) if x == y => {
                    acc.label("ds:union-already-joined");
                    !model.classes[x].1.is_empty()
                }
                (Some(x), Some(y)) => {
                    let nt = model.classes[x].0.len() >= 2
                        && model.classes[y].0.len() >= 2
                        && !model.classes[x].1.is_empty()
                        && !model.classes[y].1.is_empty();
                    if nt {
                        acc.label("ds:union-two-nonsingletons-with-data");
                    }
                    nt
                }
                _ => false,
            }
        }
        DsOp::Insert(x) => match model.class_of(x) {
            Some(c) if model.classes[c].0.len() >= 2 => {
                acc.label("ds:reinsert-joined");
                true
            }
            _ => false,
        },
        DsOp::AddData(x, _) | DsOp::SetData(x, _) | DsOp::Find(x) | DsOp::GetData(x) => {
            if model.class_of(x).is_none() {
                acc.label("ds:op-on-never-inserted");
            }
            false
        }
    }
}

fn ds_signature(op: DsOp, model_before: &DsModel, what: &str) -> String {
    let kind = match op {
        DsOp::Insert(x) => match model_before.class_of(x) {
            Some(c) if model_before.classes[c].0.len() >= 2 => "insert of an element that is already joined to others",
            Some(_) => "insert of an existing singleton",
            None => "insert of a new element",
        },
        DsOp::Union(a, b) => {
            let (ca, cb) = (model_before.class_of(a), model_before.class_of(b));
            if a == b {
                "union of an element with itself"
            } else if ca.is_some() && ca == cb {
                "union of two elements already in one class"
            } else {
                "union of two classes"
            }
        }
        DsOp::AddData(..) => "add_data",
        DsOp::SetData(..) => "set_data",
        DsOp::Find(_) => "find",
        DsOp::GetData(_) => "get_data",
    };
    let what_class = if what.starts_with("partition") {
        "partition differs from the model"
    } else if what.starts_with("data of") {
        "class data differs from the model"
    } else if what.starts_with("sets()") {
        "sets() differs from the model"
    } else {
        "values() differs from the model"
    };
    format!("DisjointSet after {kind}: {what_class}")
}

fn ds_case(monoid: &str, ops: &[DsOp]) -> Value {
    json!({ "structure": "DisjointSet", "monoid": monoid, "ops": ops })
}

/// run a whole sequence from scratch (used for random sequences and replay)
fn run_ds_sequence<D: Mono>(ops: &[DsOp], acc: &mut Acc) -> CaseResult {
    let mut ds: DisjointSet<usize, D> = DisjointSet::new();
    let mut model = DsModel::default();
    let mut nontrivial = false;
    for (i, op) in ops.iter().enumerate() {
        nontrivial |= ds_step_label(&model, *op, acc);
        let before = model.clone();
        model.apply(*op, D::IDEMPOTENT);
        let r = guard(|| {
            apply_impl(&mut ds, *op);
            observe(&ds, &model)
        });
        let problem = match r {
            Ok(None) => None,
            Ok(Some(d)) => Some((ds_signature(*op, &before, &d), d)),
            Err(p) => Some((format!("DisjointSet {}", p.signature()), p.msg)),
        };
        if let Some((sig, d)) = problem {
            return CaseResult::Fail(Violation::new(
                format!("{sig} [{}]", D::NAME),
                format!("step {i} ({op:?}): {d}"),
                ds_case(D::NAME, &ops[..=i]),
            ));
        }
    }
    acc.mark(fnv64(format!("{}{ops:?}", D::NAME).as_bytes()), nontrivial);
    CaseResult::Pass
}

fn ds_alphabet(n: usize) -> Vec<DsOp> {
    let mut v = vec![];
    for x in 0..n {
        v.push(DsOp::Insert(x));
        v.push(DsOp::Find(x));
        v.push(DsOp::AddData(x, 1));
        v.push(DsOp::SetData(x, 2));
        if n >= 4 {
            v.push(DsOp::AddData(x, 2));
            v.push(DsOp::SetData(x, 1));
        } else {
            v.push(DsOp::AddData(x, EMPTY));
        }
        for y in 0..n {
            v.push(DsOp::Union(x, y));
        }
    }
    v
}

struct Dfs<'a> {
    acc:      &'a mut Acc,
    ctx:      &'a ShardCtx<'a>,
    found:    Vec<Violation>,
    nodes:    u64,
}

fn dfs_ds<D: Mono>(
    st: &mut Dfs,
    alphabet: &[DsOp],
    ds: &DisjointSet<usize, D>,
    model: &DsModel,
    path: &mut Vec<DsOp>,
    nontrivial: bool,
    depth_left: usize,
) {
    if depth_left == 0 {
        return;
    }
    for (k, op) in alphabet.iter().enumerate() {
        // the first operation is split over the shards
        if path.is_empty() && k % SHARDS != st.ctx.shard {
            continue;
        }
        let mut ds2 = ds.clone();
        let mut m2 = model.clone();
        let nt = nontrivial | ds_step_label(model, *op, st.acc);
        m2.apply(*op, D::IDEMPOTENT);
        path.push(*op);
        st.acc.case();
        st.nodes += 1;
        let r = guard(|| {
            apply_impl(&mut ds2, *op);
            observe(&ds2, &m2)
        });
        let problem = match r {
            Ok(None) => None,
            Ok(Some(d)) => Some((ds_signature(*op, model, &d), d)),
            Err(p) => Some((format!("DisjointSet {}", p.signature()), p.msg)),
        };
        match problem {
            Some((sig, d)) => {
                let sig = format!("{sig} [{}]", D::NAME);
                if st.ctx.known.lookup(st.ctx.prop, &sig).is_some() {
                    *st.acc.known.entry(sig).or_default() += 1;
                } else if !st.found.iter().any(|v| v.signature == sig) {
                    // DFS explores shorter sequences first along each branch, so this is minimal for the branch
                    st.found.push(Violation::new(sig, format!("{op:?}: {d}"), ds_case(D::NAME, path)));
                }
                // do not extend a history that already diverged
            }
            None => {
                st.acc.mark(fnv64(format!("{}{path:?}", D::NAME).as_bytes()), nt);
                dfs_ds(st, alphabet, &ds2, &m2, path, nt, depth_left - 1);
            }
        }
        path.pop();
    }
}

// ------------------------------------------------------------------------------------------------
// VectorMap
// ------------------------------------------------------------------------------------------------

#[derive(Clone, Copy, Debug, PartialEq, Eq, Hash, Serialize, Deserialize)]
pub enum VmOp {
    Insert(usize, u32),
    Remove(usize),
    /// get_mut + add one
    Bump(usize),
    /// replace the map by one built with `From` from the list of its own pairs, preceded by a stale
    /// duplicate of the first key (a list in which a key appears twice; the later pair wins);
    /// true = `From<Vec<(K, V)>>`, false = `From<&[(K, V)]>`
    Rebuild(bool),
}

fn vm_observe(vm: &VectorMap<usize, u32>, model: &BTreeMap<usize, u32>, universe: usize) -> Option<String> {
    if vm.len() != model.len() {
        return Some(format!("len() = {}, the model holds {} entries", vm.len(), model.len()));
    }
    if vm.is_empty() != model.is_empty() {
        return Some(format!("is_empty() = {}, the model holds {} entries", vm.is_empty(), model.len()));
    }
    for k in 0..universe + 2 {
        if vm.get(&k) != model.get(&k) {
            return Some(format!("get({k}) = {:?}, the model has {:?}", vm.get(&k), model.get(&k)));
        }
    }
    let it: Vec<(usize, u32)> = vm.iter().map(|(k, v)| (k, *v)).collect();
    let want: Vec<(usize, u32)> = model.iter().map(|(k, v)| (*k, *v)).collect();
    if it != want {
        return Some(format!("iter() = {it:?}, the model has {want:?}"));
    }
    let idx: Vec<usize> = vm.indices().collect();
    if idx != model.keys().copied().collect::<Vec<_>>() {
        return Some(format!("indices() = {idx:?}, the model has {:?}", model.keys().collect::<Vec<_>>()));
    }
    let vals: Vec<u32> = vm.values().copied().collect();
    if vals != model.values().copied().collect::<Vec<_>>() {
        return Some(format!("values() = {vals:?}"));
    }
    // the consuming and mutable enumerations, on a copy
    let idx2: Vec<usize> = vm.clone().into_indices().collect();
    if idx2 != idx {
        return Some(format!("into_indices() = {idx2:?}, indices() = {idx:?}"));
    }
    let vals2: Vec<u32> = vm.clone().into_values().collect();
    if vals2 != vals {
        return Some(format!("into_values() = {vals2:?}, values() = {vals:?}"));
    }
    let mut copy = vm.clone();
    let it2: Vec<(usize, u32)> = copy.iter_mut().map(|(k, v)| (k, *v)).collect();
    if it2 != want {
        return Some(format!("iter_mut() = {it2:?}, the model has {want:?}"));
    }
    // "the largest currently-stored key index in the map if the map is non-empty"
    let max = vm.max_key_index();
    let want_max = model.keys().next_back().copied();
    if max != want_max {
        return Some(format!("max_key_index() = {max:?}, the largest key of the model is {want_max:?}"));
    }
    None
}

fn vm_apply(vm: &mut VectorMap<usize, u32>, model: &mut BTreeMap<usize, u32>, op: VmOp) -> Option<String> {
    match op {
        VmOp::Insert(k, v) => {
            vm.insert(&k, v);
            model.insert(k, v);
            None
        }
        VmOp::Remove(k) => {
            let a = vm.remove(&k);
            let b = model.remove(&k);
            if a != b {
                Some(format!("remove({k}) returned {a:?}, the model returned {b:?}"))
            } else {
                None
            }
        }
        VmOp::Rebuild(from_vec) => {
            let mut list: Vec<(usize, u32)> = model.iter().map(|(k, v)| (*k, *v)).collect();
            match list.first().copied() {
                Some((k0, v0)) => list.insert(0, (k0, v0.wrapping_add(7))),
                None => {
                    list = vec![(0, 1), (0, 2)];
                    model.insert(0, 2);
                }
            }
            *vm = if from_vec { VectorMap::from(list) } else { VectorMap::from(list.as_slice()) };
            None
        }
        VmOp::Bump(k) => {
            let a = vm.get_mut(&k).map(|v| {
                *v = v.wrapping_add(1);
                *v
            });
            let b = model.get_mut(&k).map(|v| {
                *v = v.wrapping_add(1);
                *v
            });
            if a != b {
                Some(format!("get_mut({k}) gave {a:?}, the model {b:?}"))
            } else {
                None
            }
        }
    }
}

fn vm_step_label(vm_len_slots: usize, model: &BTreeMap<usize, u32>, op: VmOp, acc: &mut Acc) -> (bool, &'static str) {
    match op {
        VmOp::Insert(k, _) if model.contains_key(&k) => {
            acc.label("vm:overwrite");
            (true, "insert over an existing key")
        }
        VmOp::Insert(..) => (false, "insert of a new key"),
        VmOp::Remove(k) if !model.contains_key(&k) => {
            if k < vm_len_slots {
                acc.label("vm:remove-absent-in-range");
                (true, "remove of an absent key below the highest key ever inserted")
            } else {
                acc.label("vm:remove-absent-out-of-range");
                (true, "remove of an absent key above every key ever inserted")
            }
        }
        VmOp::Remove(_) => (false, "remove of a present key"),
        VmOp::Bump(_) => (false, "get_mut"),
        VmOp::Rebuild(_) => {
            acc.label("vm:built-from-a-list-with-a-repeated-key");
            (true, "construction from a list with a repeated key")
        }
    }
}

fn vm_case(ops: &[VmOp]) -> Value {
    json!({ "structure": "VectorMap", "ops": ops })
}

fn run_vm_sequence(ops: &[VmOp], universe: usize, acc: &mut Acc) -> CaseResult {
    let mut vm: VectorMap<usize, u32> = VectorMap::new();
    let mut model = BTreeMap::new();
    let mut nontrivial = false;
    let mut high = 0usize; // number of slots ever materialised
    for (i, op) in ops.iter().enumerate() {
        let (nt, kind) = vm_step_label(high, &model, *op, acc);
        nontrivial |= nt;
        if let VmOp::Insert(k, _) = op {
            high = high.max(k + 1);
        }
        let r = guard(|| vm_apply(&mut vm, &mut model, *op).or_else(|| vm_observe(&vm, &model, universe)));
        let problem = match r {
            Ok(None) => None,
            Ok(Some(d)) => {
                let head = d.split(|c| c == '=' || c == ',').next().unwrap_or("").trim().to_string();
                let head = head.split('(').next().unwrap_or("").to_string();
                Some((format!("VectorMap after {kind}: {head} disagrees with the model"), d))
            }
            Err(p) => Some((format!("VectorMap {kind}: {}", p.signature()), p.msg)),
        };
        if let Some((sig, d)) = problem {
            return CaseResult::Fail(Violation::new(sig, format!("step {i} ({op:?}): {d}"), vm_case(&ops[..=i])));
        }
    }
    acc.mark(fnv64(format!("vm{ops:?}").as_bytes()), nontrivial);
    CaseResult::Pass
}

fn vm_alphabet() -> Vec<VmOp> {
    let mut v = vec![];
    for k in 0..4 {
        v.push(VmOp::Insert(k, 1));
        v.push(VmOp::Insert(k, 2));
        v.push(VmOp::Bump(k));
    }
    for k in 0..5 {
        v.push(VmOp::Remove(k));
    }
    v.push(VmOp::Rebuild(true));
    v.push(VmOp::Rebuild(false));
    v
}

fn dfs_vm(st: &mut Dfs, alphabet: &[VmOp], path: &mut Vec<VmOp>, depth_left: usize) {
    // VectorMap is cheap: re-run the path from scratch (keeps the code the same as replay)
    if depth_left == 0 {
        return;
    }
    for (k, op) in alphabet.iter().enumerate() {
        if path.is_empty() && k % SHARDS != st.ctx.shard {
            continue;
        }
        path.push(*op);
        st.acc.case();
        st.nodes += 1;
        match run_vm_sequence(path, 5, st.acc) {
            CaseResult::Pass => dfs_vm(st, alphabet, path, depth_left - 1),
            CaseResult::Fail(v) => {
                if st.ctx.known.lookup(st.ctx.prop, &v.signature).is_some() {
                    *st.acc.known.entry(v.signature.clone()).or_default() += 1;
                } else if !st.found.iter().any(|x| x.signature == v.signature) {
                    st.found.push(v);
                }
            }
        }
        path.pop();
    }
}

// ------------------------------------------------------------------------------------------------

fn gen_ds_ops(ch: &mut Chooser) -> Vec<DsOp> {
    let universe = *ch.pick(&[4usize, 8, 64]);
    let len = match ch.below(6) {
        0 => ch.range(100, 400),
        _ => ch.range(1, 60),
    };
    (0..len)
        .map(|_| {
            let x = ch.below(universe);
            match ch.below(12) {
                0 | 1 => DsOp::Insert(x),
                2..=5 => DsOp::Union(x, ch.below(universe)),
                6 | 7 => DsOp::AddData(x, if ch.chance(1, 6) { EMPTY } else { ch.below(4) as u32 }),
                8 => DsOp::SetData(x, if ch.chance(1, 6) { EMPTY } else { ch.below(4) as u32 }),
                9 => DsOp::Find(x),
                10 => DsOp::GetData(x),
                _ => DsOp::Union(x, x),
            }
        })
        .collect()
}

fn gen_vm_ops(ch: &mut Chooser) -> Vec<VmOp> {
    let universe = *ch.pick(&[4usize, 16, 64]);
    let len = match ch.below(6) {
        0 => ch.range(100, 400),
        _ => ch.range(1, 60),
    };
    (0..len)
        .map(|_| {
            let k = ch.below(universe);
            match ch.below(13) {
                0..=5 => VmOp::Insert(k, ch.below(5) as u32),
                6..=9 => VmOp::Remove(ch.below(universe + 2)),
                12 => VmOp::Rebuild(ch.chance(1, 2)),
                _ => VmOp::Bump(k),
            }
        })
        .collect()
}

fn run_shard(ctx: &ShardCtx, acc: &mut Acc) {
    let (d4, d3, dv) = match ctx.tier {
        Tier::Quick => (4, 5, 5),
        Tier::Thorough => (5, 6, 6),
    };
    let mut found = vec![];
    if !ctx.fuzzing() {
        let mut st = Dfs {
            acc,
            ctx,
            found: vec![],
            nodes: 0,
        };
        let a4 = ds_alphabet(4);
        let a3 = ds_alphabet(3);
        dfs_ds::<Multi>(&mut st, &a4, &DisjointSet::new(), &DsModel::default(), &mut vec![], false, d4);
        dfs_ds::<HashSet<u32>>(&mut st, &a4, &DisjointSet::new(), &DsModel::default(), &mut vec![], false, d4);
        dfs_ds::<Multi>(&mut st, &a3, &DisjointSet::new(), &DsModel::default(), &mut vec![], false, d3);
        dfs_ds::<HashSet<u32>>(&mut st, &a3, &DisjointSet::new(), &DsModel::default(), &mut vec![], false, d3);
        let av = vm_alphabet();
        dfs_vm(&mut st, &av, &mut vec![], dv);
        let nodes = st.nodes;
        found.append(&mut st.found);
        acc.count("exhaustive_histories", nodes);
    }
    for v in found {
        if !acc.violations.iter().any(|x| x.signature == v.signature) {
            acc.violations.push(v);
        }
    }
    acc.max("exhaustive_depth_ds4", d4 as u64);
    acc.max("exhaustive_depth_ds3", d3 as u64);
    acc.max("exhaustive_depth_vectormap", dv as u64);

    let n = ctx.tier.pick(2_500, 40_000);
    drive(ctx, "ds-multi", n, 900, acc, &|ch, acc| {
        let ops = gen_ds_ops(ch);
        acc.label_if(ops.len() >= 100, "random-seq-len>=100");
        acc.sample(|| json!({ "DisjointSet<multiset>": format!("{:?}", &ops[..ops.len().min(12)]), "len": ops.len() }));
        run_ds_sequence::<Multi>(&ops, acc)
    });
    drive(ctx, "ds-set", n, 900, acc, &|ch, acc| {
        let ops = gen_ds_ops(ch);
        run_ds_sequence::<HashSet<u32>>(&ops, acc)
    });
    drive(ctx, "vm", n, 900, acc, &|ch, acc| {
        let ops = gen_vm_ops(ch);
        acc.label_if(ops.len() >= 100, "random-seq-len>=100");
        acc.sample(|| json!({ "VectorMap": format!("{:?}", &ops[..ops.len().min(12)]), "len": ops.len() }));
        run_vm_sequence(&ops, 66, acc)
    });
}

fn replay(case: &Value, acc: &mut Acc) -> CaseResult {
    match case["structure"].as_str() {
        Some("DisjointSet") => {
            let ops: Vec<DsOp> = serde_json::from_value(case["ops"].clone()).expect("replay case: ops");
            if case["monoid"] == "hashset" {
                run_ds_sequence::<HashSet<u32>>(&ops, acc)
            } else {
                run_ds_sequence::<Multi>(&ops, acc)
            }
        }
        Some("VectorMap") => {
            let ops: Vec<VmOp> = serde_json::from_value(case["ops"].clone()).expect("replay case: ops");
            run_vm_sequence(&ops, 66, acc)
        }
        _ => panic!("replay case: unknown structure"),
    }
}

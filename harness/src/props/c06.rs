//! C06 — no missed slots: every constant-key storage access yields a layout entry.

use crate::{
    asm,
    core::{drive, fnv64, guard, Acc, CaseResult, Chooser, ShardCtx, Tier, Violation},
    evmref::{self, End, RefCfg},
    gen::{self, CfOpts, ConstOpts, B},
    idiom,
    props::PropDef,
    refword::{keccak_words, W},
    subj::{self, CountingWatchdog, VmCfg},
};
use serde_json::{json, Value};
use std::{collections::BTreeSet, sync::OnceLock};
use storage_layout_extractor::vm::value::{RuntimeBoxedVal, RSVD};

pub fn def() -> PropDef {
    PropDef {
        id: "C06",
        level: "exploration",
        rule: "programs with literal storage keys: a dedicated generator (1-5 keys from the boundary set, small integers, >= 2^64, \
               >= 2^128, 2^256-1, EIP-1967 constants, keccak(n) for n around the 10000 exemption boundary, random words; each key \
               written, read-and-popped, read-and-used, masked back onto itself, packed, routed through DUP/SWAP/MSTORE+MLOAD, or \
               accessed on a thread that later dies with an error), constant programs, idiom layouts, control-flow programs with \
               marker stores, mutated real contracts; strict and permissive. Two independent sources for the set L of literal keys: \
               the reference EVM's executed SLOAD/SSTORE keys that carry its 'literal' tag (pushed and only moved since), and the \
               KnownData keys of SLoad / StorageWrite / UnwrittenStorageValue nodes in the VM's collected values; both minus \
               keccak(i), i < 10000. If the analysis is Ok, every key in L has a layout entry at exactly that 256-bit index. \
               distinct = hash of (bytecode, mode); non-trivial = the analysis succeeded and L is not empty",
        assumptions: &[
            "reference EVM literal tagging (harness/src/evmref.rs); keccak via the sha3 crate for the exemption set",
            "the exemption is exactly keccak(i) for i in 0..10000, as the property states",
        ],
        run_shard,
        replay,
        describe: None,
        health,
        exhaustive: None,
    }
}

fn health(acc: &Acc, _t: Tier) -> Vec<String> {
    crate::props::require_labels(
        acc,
        &[
            ("key>=2^64", 300),
            ("key>=2^128", 300),
            ("key=2^256-1", 20),
            ("key:eip1967", 50),
            ("key:keccak-of-small-exempt", 50),
            ("key:keccak-just-outside-exemption", 50),
            ("pattern:read-and-popped", 200),
            ("pattern:self-masked", 200),
            ("pattern:routed", 200),
            ("pattern:error-after", 100),
            ("ref-source-used", 1500),
            ("vm-source-used", 2000),
            ("permissive", 300),
        ],
    )
}

fn exempt() -> &'static BTreeSet<W> {
    static E: OnceLock<BTreeSet<W>> = OnceLock::new();
    E.get_or_init(|| (0..10_000u64).map(|i| keccak_words(&[W::from_u64(i)])).collect())
}

const EIP1967: [&str; 3] = [
    "360894a13ba1a3210667c828492db98dca3e2076cc3735a920a3ca505d382bbc",
    "b53127684a568b3173ae13b9f8a6016e243e63b6e8ee1178d6a717850b5d6103",
    "a3f0ad74e5423aebfd80d3ef4346578335a9a72aeaee59ff6cb3582b35133d50",
];

fn gen_key(ch: &mut Chooser, acc: &mut Acc) -> W {
    match ch.below(12) {
        0 | 1 => W::from_u64(ch.below(50) as u64),
        2 | 3 => ch.word(),
        4 => W::from_u128((1u128 << 64) + ch.below(100) as u128),
        5 => W::pow2(128).add(W::from_u64(ch.below(100) as u64)),
        6 => W::MAX,
        7 => {
            acc.label("key:eip1967");
            W::from_hex(*ch.pick(&EIP1967[..])).unwrap()
        }
        8 => {
            acc.label("key:keccak-of-small-exempt");
            keccak_words(&[W::from_u64(*ch.pick(&[0u64, 1, 5, 9_998, 9_999]))])
        }
        9 => {
            acc.label("key:keccak-just-outside-exemption");
            keccak_words(&[W::from_u64(*ch.pick(&[10_000u64, 10_001, 10_002, 65_536, 1 << 20]))])
        }
        10 => {
            // low 64 bits shared with another plausible key
            W::pow2(*ch.pick(&[64u32, 65, 128, 200, 255])).add(W::from_u64(ch.below(8) as u64))
        }
        _ => ch.random_word(),
    }
}

fn g_keys(ch: &mut Chooser, acc: &mut Acc) -> B {
    let mut b = B::new();
    let n = ch.range(1, 5);
    let keys: Vec<W> = (0..n).map(|_| gen_key(ch, acc)).collect();
    let mut pending_labels: Vec<usize> = vec![];
    for k in &keys {
        let in_branch = ch.chance(1, 4);
        let l = b.label();
        if in_branch {
            b.emit(asm::CALLDATASIZE);
            b.push_label(l);
            b.emit(asm::JUMPI);
        }
        let entry = b.depth;
        match ch.below(10) {
            0 => {
                b.push(W::from_u64(4));
                b.emit(asm::CALLDATALOAD);
                b.push_wide(*k, ch);
                b.emit(asm::SSTORE);
            }
            8 | 9 => {
                // the loaded word goes into an operand the analysis does not keep as a value of its own:
                // the read itself must still be remembered
                acc.label("pattern:read-into-sink");
                let sink = ch.below(11);
                if sink == 0 {
                    // shift amount under a constant mask
                    b.push(W::from_u64(4));
                    b.emit(asm::CALLDATALOAD);
                }
                b.push_wide(*k, ch);
                b.emit(asm::SLOAD);
                match sink {
                    0 => {
                        b.emit(*ch.pick(&[asm::SHR, asm::SHL, asm::SAR]));
                        b.push(*ch.pick(&[idiom::mask(160), idiom::mask(8), idiom::mask(128)]));
                        b.emit(asm::AND);
                        b.push(W::ZERO);
                        b.emit(asm::MSTORE);
                    }
                    1 => {
                        // grown past the default value size limit, then stored to memory
                        for _ in 0..ch.range(8, 10) {
                            b.emit(asm::DUP1);
                            b.emit(*ch.pick(&[asm::ADD, asm::MUL, asm::XOR]));
                        }
                        b.push(W::ZERO);
                        b.emit(asm::MSTORE);
                    }
                    2 => {
                        // size of a log / copy
                        b.push(W::ZERO);
                        b.emit(asm::LOG0);
                    }
                    3 => {
                        b.push(W::ZERO);
                        b.push(W::ZERO);
                        b.emit(asm::CALLDATACOPY);
                    }
                    4 => {
                        // symbolic memory offset of a load / store
                        if ch.chance(1, 2) {
                            b.emit(asm::MLOAD);
                            b.emit(asm::POP);
                        } else {
                            b.push(W::ONE);
                            b.emit(asm::SWAP1);
                            b.emit(asm::MSTORE);
                        }
                    }
                    5 => {
                        // argument of an environment query whose result is dropped
                        b.emit(*ch.pick(&[asm::BALANCE, asm::EXTCODESIZE, asm::EXTCODEHASH, asm::BLOCKHASH, asm::ISZERO, asm::NOT]));
                        b.emit(asm::POP);
                    }
                    6 => {
                        // size of a hash
                        b.push(W::ZERO);
                        b.emit(asm::SHA3);
                        b.emit(asm::POP);
                    }
                    7 => {
                        // condition of a branch to the next instruction
                        let l2 = b.label();
                        b.push_label(l2);
                        b.emit(asm::JUMPI);
                        b.place(l2);
                    }
                    8 => {
                        // exponent / operand of arithmetic that is popped
                        b.push(W::from_u64(3));
                        b.emit(*ch.pick(&[asm::EXP, asm::SIGNEXTEND, asm::BYTE, asm::SDIV]));
                        b.emit(asm::POP);
                    }
                    _ => {
                        // length (or offset) of the data a thread ends with
                        acc.label("pattern:read-into-return-length");
                        if ch.chance(1, 2) {
                            b.push(W::ZERO);
                        } else {
                            b.push(W::ZERO);
                            b.emit(asm::SWAP1);
                        }
                        b.level(2);
                        b.ins.push(asm::op(*ch.pick(&[asm::RETURN, asm::REVERT])));
                        b.level(0);
                    }
                }
            }
            1 => {
                acc.label("pattern:read-and-popped");
                b.push_wide(*k, ch);
                b.emit(asm::SLOAD);
                b.emit(asm::POP);
            }
            2 => {
                b.push_wide(*k, ch);
                b.emit(asm::SLOAD);
                b.push(W::ZERO);
                b.emit(asm::MSTORE);
            }
            3 => {
                acc.label("pattern:self-masked");
                b.push_wide(*k, ch);
                b.emit(asm::SLOAD);
                let m = *ch.pick(&[idiom::mask(160), idiom::mask(8).not(), idiom::mask(128), W::pow2(255).sub(W::ONE), idiom::mask(160).shl(W::from_u64(8)).not()]);
                b.push(m);
                b.emit(asm::AND);
                if ch.chance(1, 3) {
                    // (s & lo) | (s & hi)
                    b.push_wide(*k, ch);
                    b.emit(asm::SLOAD);
                    b.push(m.not());
                    b.emit(asm::AND);
                    b.emit(asm::OR);
                }
                b.push_wide(*k, ch);
                b.emit(asm::SSTORE);
            }
            4 => {
                // packed update
                b.push(W::from_u64(4));
                b.emit(asm::CALLDATALOAD);
                b.push(idiom::mask(160));
                b.emit(asm::AND);
                b.push_wide(*k, ch);
                b.emit(asm::SLOAD);
                b.push(idiom::mask(160).not());
                b.emit(asm::AND);
                b.emit(asm::OR);
                b.push_wide(*k, ch);
                b.emit(asm::SSTORE);
            }
            5 => {
                acc.label("pattern:routed");
                // the key travels through DUP / SWAP / memory before it is used
                b.push_wide(*k, ch);
                b.emit(asm::CALLVALUE);
                b.emit(asm::SWAP1);
                b.emit(asm::DUP1);
                b.push(W::from_u64(0x80));
                b.emit(asm::MSTORE);
                b.emit(asm::POP);
                b.push(W::from_u64(0x80));
                b.emit(asm::MLOAD);
                if ch.chance(1, 2) {
                    b.emit(asm::SSTORE);
                } else {
                    b.emit(asm::SLOAD);
                    b.emit(asm::POP);
                    b.emit(asm::POP);
                }
            }
            6 => {
                acc.label("pattern:error-after");
                b.push(W::ONE);
                b.push_wide(*k, ch);
                b.emit(asm::SSTORE);
                // the thread dies right after
                b.level(0);
                b.ins.push(asm::op(*ch.pick(&[asm::POP, asm::ADD, asm::INVALID, asm::REVERT])));
            }
            _ => {
                // write then read then write again
                b.push(W::from_u64(36));
                b.emit(asm::CALLDATALOAD);
                b.push_wide(*k, ch);
                b.emit(asm::SSTORE);
                b.push_wide(*k, ch);
                b.emit(asm::SLOAD);
                b.push(W::ONE);
                b.emit(asm::ADD);
                b.push_wide(*k, ch);
                b.emit(asm::SSTORE);
            }
        }
        b.level(entry);
        if in_branch {
            pending_labels.push(l);
            b.place(l);
        }
    }
    b.level(0);
    b.emit(asm::STOP);
    b
}

/// literal keys recorded by the VM: KnownData keys of storage nodes anywhere in the values
fn vm_literal_keys(values: &[RuntimeBoxedVal], out: &mut BTreeSet<W>, seen: &mut std::collections::HashSet<usize>) {
    for v in values {
        if !seen.insert(crate::eval::arc_ptr(v)) {
            continue;
        }
        match v.data() {
            RSVD::SLoad { key, .. } | RSVD::StorageWrite { key, .. } | RSVD::UnwrittenStorageValue { key } => {
                if let RSVD::KnownData { value } = key.data() {
                    out.insert(subj::from_kw(value));
                }
            }
            _ => {}
        }
        vm_literal_keys(&v.children(), out, seen);
    }
}

pub fn check_code(code: &[u8], permissive: bool, use_ref: bool, acc: &mut Acc) -> CaseResult {
    let case = json!({ "bytes": hex::encode(code), "permissive": permissive });
    let fail = |sig: String, detail: String| CaseResult::Fail(Violation::new(sig, detail, case.clone()));
    let cfg = VmCfg {
        permissive,
        ..VmCfg::default()
    };
    acc.label_if(permissive, "permissive");
    let mut key = code.to_vec();
    key.push(permissive as u8);
    // the analysis
    let wd = CountingWatchdog::budget(3_000_000);
    let layout = match guard(|| subj::analyze(code, &cfg, true, subj::dyn_wd(&wd))) {
        Err(p) => {
            acc.excluded("excluded_c01_panic");
            acc.note(format!("subject panicked (owned by C01): {}", p.signature()));
            return CaseResult::Pass;
        }
        Ok(Err(_)) => {
            if wd.fired() {
                acc.excluded("excluded_c03_budget");
            }
            acc.label("analysis-error");
            acc.mark(fnv64(&key), false);
            return CaseResult::Pass;
        }
        Ok(Ok(l)) => l,
    };
    let reported: BTreeSet<W> = layout.slots().iter().map(|s| subj::from_u256(s.index.0)).collect();
    // L_vm
    let mut l_vm = BTreeSet::new();
    let run = match guard(|| subj::run_vm(code, &cfg, subj::lazy())) {
        Ok(Ok(r)) => r,
        _ => {
            acc.excluded("excluded_c01_panic");
            return CaseResult::Pass;
        }
    };
    let mut seen = std::collections::HashSet::new();
    // keep every value alive while walking: the seen-set is keyed by address
    let all: Vec<RuntimeBoxedVal> = run.states.iter().flat_map(|s| s.clone().all_values()).collect();
    vm_literal_keys(&all, &mut l_vm, &mut seen);
    acc.label("vm-source-used");
    // L_ref
    let mut l_ref = BTreeSet::new();
    if use_ref {
        let gas = run.gas.clone();
        let gas_of = |i: usize| gas.get(i).copied().unwrap_or(0);
        let rr = evmref::run(
            code,
            &RefCfg {
                gas_of: &gas_of,
                gas_limit: cfg.gas_limit as u64,
                visit_limit: 1,
                max_paths: 2_000,
                max_steps: 400_000,
                selfdestruct_halts: true,
            },
        );
        // within the limits: loop-free, complete, far below the gas limit, few forks per target
        let ok = rr.complete
            && rr.paths.iter().all(|p| !matches!(p.end, End::Budget) && p.gas_error_at.is_none() && !p.mem_imprecise)
            && rr.paths.len() <= cfg.forks;
        if ok {
            acc.label("ref-source-used");
            for p in &rr.paths {
                for (k, _, _) in &p.sstores {
                    if let (Some(w), true) = (k.w, k.lit) {
                        l_ref.insert(w);
                    }
                }
                for (k, _) in &p.sloads {
                    if let (Some(w), true) = (k.w, k.lit) {
                        l_ref.insert(w);
                    }
                }
            }
        }
    }
    let l: BTreeSet<W> = l_vm.union(&l_ref).copied().filter(|k| !exempt().contains(k)).collect();
    acc.mark(fnv64(&key), !l.is_empty());
    for k in &l {
        acc.label_if(k.bits() > 64, "key>=2^64");
        acc.label_if(k.bits() > 128, "key>=2^128");
        acc.label_if(*k == W::MAX, "key=2^256-1");
    }
    for k in &l {
        if !reported.contains(k) {
            let src = match (l_ref.contains(k), l_vm.contains(k)) {
                (true, true) => "executed by the reference EVM and recorded by the VM",
                (true, false) => "executed by the reference EVM but absent from the VM's collected values",
                _ => "recorded by the VM",
            };
            let class = if k.bits() > 64 {
                "key >= 2^64"
            } else {
                "small key"
            };
            let near = reported.iter().any(|r| r.low_u64() == k.low_u64() && r != k);
            return fail(
                format!(
                    "a literal storage key has no layout entry ({class}{})",
                    if near { ", another entry shares its low 64 bits" } else { "" }
                ),
                format!("key {k} ({src}); reported slots: {reported:?}"),
            );
        }
    }
    CaseResult::Pass
}

fn run_shard(ctx: &ShardCtx, acc: &mut Acc) {
    let tier = ctx.tier;
    drive(ctx, "keys", tier.pick(75_000, 400_000), 900, acc, &|ch, acc| {
        let permissive = ch.chance(1, 4);
        let (code, use_ref): (Vec<u8>, bool) = match ch.below(10) {
            0..=4 => (g_keys(ch, acc).code(), true),
            5 => (
                gen::g_const(
                    ch,
                    &ConstOpts {
                        max_jumpi: 4,
                        computed_keys: true,
                        extra_alu: 0,
                        len: 30,
                    },
                )
                .b
                .code(),
                true,
            ),
            6 => {
                let t = idiom::gen_truth(ch, 6);
                (asm::assemble(&idiom::compile(&t, 0xa0b0_0000)), true)
            }
            7 => (
                gen::g_cf(
                    ch,
                    &CfOpts {
                        back_edges: false,
                        faults: true,
                        trunc_tail: true,
                        max_blocks: 6,
                    },
                )
                .b
                .code(),
                true,
            ),
            _ => (gen::g_mutreal(ch, tier.pick(300, 1500)).1, false),
        };
        acc.sample(|| json!({ "bytes": hex::encode(&code[..code.len().min(200)]), "len": code.len(), "permissive": permissive }));
        check_code(&code, permissive, use_ref, acc)
    });
}

fn replay(case: &Value, acc: &mut Acc) -> CaseResult {
    let code = hex::decode(case["bytes"].as_str().expect("replay case: bytes")).expect("replay case: hex");
    check_code(&code, case["permissive"].as_bool().unwrap_or(false), true, acc)
}

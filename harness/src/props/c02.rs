//! C02 — determinism: the same bytecode and configuration always give the same layout.

use crate::{
    asm,
    core::{drive, fnv64, guard, Acc, CaseResult, Chooser, ShardCtx, Tier, Violation},
    gen::{self, B},
    idiom,
    props::PropDef,
    refword::W,
    subj::{self, CountingWatchdog, VmCfg},
};
use serde_json::{json, Value};
use std::collections::BTreeSet;
use storage_layout_extractor::{
    tc::abi::AbiType,
    verif_hooks::{self, OrderSpec},
};

pub fn def() -> PropDef {
    PropDef {
        id: "C02",
        level: "exploration",
        rule: "programs whose slots carry several pieces of evidence - a clash generator (1-3 slots, each used in 2-6 different ways: \
               address-masked, bool, unsigned / signed arithmetic, array element, array length, mapping, packed fields at \
               different splits, string-style flag bit, copies between slots), ground-truth idiom layouts, opcode-table programs, \
               mutated real contracts - each analysed under several iteration orders of the hash-ordered collections: natural \
               (4 repeated analyze() calls in one process; every HashMap gets fresh RandomState keys) and forced through the \
               verif-hooks permutation (reverse, sorted, and 4 seeded shuffles; 8+16 in the thorough tier, where sampled programs \
               are also re-analysed in fresh child processes). Oracle: every run has the same result class (Ok, or Err with the \
               same multiset of error kinds and locations) and, on Ok, an equal layout. distinct = hash of the bytecode; \
               non-trivial = some equivalence class folded >= 3 judgements (hook statistics) and the layout is non-empty",
        assumptions: &[
            "the hook re-orders only vectors collected from RandomState-ordered containers, so every forced order is one a differently seeded process could meet",
            "never establishes absence: the order space is factorial and is sampled",
        ],
        run_shard,
        replay,
        describe: None,
        health,
        exhaustive: None,
    }
}

fn health(acc: &Acc, _t: Tier) -> Vec<String> {
    crate::props::require_labels(
        acc,
        &[
            ("gen:clash", 1500),
            ("gen:idiom", 300),
            ("gen:struct", 200),
            ("gen:mutreal", 100),
            ("class-folded>=3", 600),
            ("layout-nonempty", 1500),
            ("slot-with-conflict", 100),
        ],
    )
}

/// one use of `slot`
fn emit_use(b: &mut B, ch: &mut Chooser, slot: W, other: W, allow_packed: bool) {
    let arg = |b: &mut B, n: u64| {
        b.push(W::from_u64(4 + 32 * n));
        b.emit(asm::CALLDATALOAD);
    };
    let mut pick = ch.below(14);
    if !allow_packed && (7..=9).contains(&pick) {
        pick = 13;
    }
    match pick {
        0 if allow_packed => {
            // address write (the mask makes the calldata word a packed encoding)
            arg(b, 0);
            b.push(idiom::mask(160));
            b.emit(asm::AND);
            b.push(slot);
            b.emit(asm::SSTORE);
        }
        0 => {
            // address evidence without a mask: the value is used as a call target and stored
            arg(b, 0);
            b.emit(asm::DUP1);
            b.emit(0x31); // BALANCE
            b.emit(asm::POP);
            b.push(slot);
            b.emit(asm::SSTORE);
        }
        1 => {
            // caller write
            b.emit(asm::CALLER);
            b.push(slot);
            b.emit(asm::SSTORE);
        }
        2 => {
            // bool write
            arg(b, 1);
            b.emit(asm::ISZERO);
            b.emit(asm::ISZERO);
            b.push(slot);
            b.emit(asm::SSTORE);
        }
        3 => {
            // unsigned arithmetic on the loaded value
            b.push(slot);
            b.emit(asm::SLOAD);
            arg(b, 2);
            b.emit(*ch.pick(&[asm::DIV, asm::LT, 0x06, 0x11]));
            b.push(other);
            b.emit(asm::SSTORE);
        }
        4 => {
            // signed arithmetic
            b.push(slot);
            b.emit(asm::SLOAD);
            arg(b, 2);
            b.emit(*ch.pick(&[0x05u8, 0x07, 0x12, 0x13]));
            b.push(other);
            b.emit(asm::SSTORE);
        }
        5 => {
            // array element keccak(slot)+i
            arg(b, 3);
            b.push(slot);
            b.push(W::ZERO);
            b.emit(asm::MSTORE);
            b.push(W::from_u64(32));
            b.push(W::ZERO);
            b.emit(asm::SHA3);
            arg(b, 0);
            b.emit(asm::ADD);
            b.emit(asm::SSTORE);
        }
        6 => {
            // mapping access
            arg(b, 3);
            b.emit(asm::CALLER);
            b.push(W::ZERO);
            b.emit(asm::MSTORE);
            b.push(slot);
            b.push(W::from_u64(32));
            b.emit(asm::MSTORE);
            b.push(W::from_u64(64));
            b.push(W::ZERO);
            b.emit(asm::SHA3);
            b.emit(asm::SSTORE);
        }
        7 | 8 => {
            // packed field write at a chosen split
            let (o, w) = *ch.pick(&[(0usize, 8usize), (0, 160), (8, 8), (160, 8), (160, 96), (0, 128), (128, 128), (8, 160), (1, 7), (8, 248)]);
            arg(b, 0);
            b.push(idiom::mask(w));
            b.emit(asm::AND);
            if o > 0 {
                b.push(W::pow2(o as u32));
                b.emit(asm::MUL);
            }
            b.push(slot);
            b.emit(asm::SLOAD);
            b.push(idiom::mask(w).shl(W::from_u64(o as u64)).not());
            b.emit(asm::AND);
            b.emit(asm::OR);
            b.push(slot);
            b.emit(asm::SSTORE);
        }
        9 => {
            // packed field read
            let (o, w) = *ch.pick(&[(0usize, 8usize), (0, 160), (8, 8), (160, 8), (0, 1), (1, 7), (8, 248), (128, 128)]);
            b.push(slot);
            b.emit(asm::SLOAD);
            if o > 0 {
                b.push(W::from_u64(o as u64));
                b.emit(asm::SHR);
            }
            b.push(idiom::mask(w));
            b.emit(asm::AND);
            if ch.chance(1, 2) {
                b.emit(asm::ISZERO);
            }
            b.push(other);
            b.emit(asm::SSTORE);
        }
        10 => {
            // copy to / from the other slot
            b.push(slot);
            b.emit(asm::SLOAD);
            b.push(other);
            b.emit(asm::SSTORE);
        }
        11 => {
            b.push(other);
            b.emit(asm::SLOAD);
            b.push(slot);
            b.emit(asm::SSTORE);
        }
        12 => {
            // used as a call target (address) or a selector
            for _ in 0..4 {
                b.push(W::ZERO);
            }
            b.push(slot);
            b.emit(asm::SLOAD);
            b.push(W::from_u64(5000));
            b.emit(0xfa);
            b.emit(asm::POP);
        }
        _ => {
            // plain word write
            arg(b, 1);
            b.push(slot);
            b.emit(asm::SSTORE);
        }
    }
}

/// One path on which a few values are computed once and then, through DUP, stored in several
/// arrangements: packed in either order into plain slots and into elements of mappings, stored alone, and
/// used as each other's mapping keys. The same value nodes (and their type variables) are shared by all
/// the stores, so anything that depends on the order in which the stores reach the type checker shows.
fn g_shared(ch: &mut Chooser) -> B {
    let mut b = B::new();
    let w = *ch.pick(&[64usize, 128]);
    for off in [0u64, 0x20] {
        b.push(W::from_u64(off));
        b.emit(asm::CALLDATALOAD);
        b.push(idiom::mask(w));
        b.emit(asm::AND);
    }
    b.push(W::from_u64(0x40));
    b.emit(asm::CALLDATALOAD);
    // positions from the bottom: a = 1, b = 2, k = 3
    let dup = |b: &mut B, pos: usize| {
        let n = b.depth - pos + 1;
        b.emit(0x80 + (n as u8 - 1));
    };
    let location = |b: &mut B, key_pos: usize, slot: u64| {
        let n = b.depth - key_pos + 1;
        b.emit(0x80 + (n as u8 - 1));
        b.push(W::ZERO);
        b.emit(asm::MSTORE);
        b.push(W::from_u64(slot));
        b.push(W::from_u64(0x20));
        b.emit(asm::MSTORE);
        b.push(W::from_u64(0x40));
        b.push(W::ZERO);
        b.emit(asm::SHA3);
    };
    for _ in 0..ch.range(2, 5) {
        match ch.below(8) {
            x @ 0..=3 => {
                // lo | hi << w, into a mapping element or a plain slot
                let (lo, hi) = if x % 2 == 0 { (1, 2) } else { (2, 1) };
                dup(&mut b, hi);
                b.push(W::pow2(w as u32));
                b.emit(asm::MUL);
                dup(&mut b, lo);
                b.emit(asm::OR);
                if x < 2 {
                    location(&mut b, 3, 1 + x as u64);
                } else {
                    b.push(W::from_u64(10 + x as u64));
                }
                b.emit(asm::SSTORE);
            }
            4 | 5 => {
                let which = if ch.chance(1, 2) { 1 } else { 2 };
                dup(&mut b, which);
                b.push(W::from_u64(3 + which as u64));
                b.emit(asm::SSTORE);
            }
            _ => {
                // m[a] = b or m[b] = a
                let (key, val) = if ch.chance(1, 2) { (1, 2) } else { (2, 1) };
                dup(&mut b, val);
                location(&mut b, key, 6 + key as u64);
                b.emit(asm::SSTORE);
            }
        }
    }
    // values left on the final stack are registered first and in stack order; popped, they reach the
    // type checker only through the stores, in the order of the storage maps
    if ch.chance(2, 3) {
        b.level(0);
    }
    b.emit(asm::STOP);
    b
}

fn g_clash(ch: &mut Chooser, allow_packed: bool) -> B {
    let mut b = B::new();
    let nslots = ch.range(1, 3);
    let slots: Vec<W> = (0..nslots).map(|i| W::from_u64(i as u64)).collect();
    // every use in its own branch (so that one failing thread does not hide the others), or straight-line
    let branching = ch.chance(1, 2);
    for s in &slots {
        let uses = ch.range(2, 6);
        for _ in 0..uses {
            let other = if ch.chance(1, 2) { *ch.pick(&slots) } else { W::from_u64(7 + ch.below(3) as u64) };
            if branching {
                let l = b.label();
                b.emit(asm::CALLDATASIZE);
                b.push_label(l);
                b.emit(asm::JUMPI);
                emit_use(&mut b, ch, *s, other, allow_packed);
                b.level(0);
                b.place(l);
            } else {
                emit_use(&mut b, ch, *s, other, allow_packed);
                b.level(0);
            }
        }
    }
    b.emit(asm::STOP);
    b
}

// ------------------------------------------------------------------------------------------------
// root-cause diagnosis: which pieces of evidence, folded in different orders, disagree?
// ------------------------------------------------------------------------------------------------

pub const PACKED_FAMILY: &str = "{Packed, *, *}";

fn te_abstract(e: &storage_layout_extractor::tc::expression::TE) -> String {
    use storage_layout_extractor::tc::expression::TE;
    match e {
        TE::Any => "Any".into(),
        TE::Equal { .. } => "Equal".into(),
        TE::Word { usage, .. } => format!("Word({usage:?})"),
        TE::Bytes => "Bytes".into(),
        TE::FixedArray { .. } => "FixedArray".into(),
        TE::Mapping { .. } => "Mapping".into(),
        TE::DynamicArray { .. } => "DynArray".into(),
        TE::Packed { .. } => "Packed".into(),
        TE::Conflict { .. } => "Conflict".into(),
    }
}

fn family_name(kinds: &[String]) -> String {
    if kinds.iter().any(|k| k == "Packed") {
        PACKED_FAMILY.to_string()
    } else {
        format!("{{{}}}", kinds.join(", "))
    }
}

fn result_kind(e: &storage_layout_extractor::tc::expression::TE) -> String {
    use storage_layout_extractor::tc::expression::TE;
    match e {
        TE::Word { width, usage } => format!("Word({usage:?},{width:?})"),
        other => te_abstract(other),
    }
}

/// The smallest sets of evidence (pairs, then triples) within one equivalence class whose fold through
/// `unification::merge` gives different results in different orders. Empty when none is found.
pub fn diagnose(code: &[u8], cfg: &VmCfg) -> Vec<String> {
    use storage_layout_extractor::{
        data::vector_map::ToUniqueIndex,
        disassembly::InstructionStream,
        tc::{expression::TE, unification::merge, TypeChecker},
        vm::VM,
    };
    let r = guard(|| -> Option<Vec<String>> {
        let stream = InstructionStream::try_from(code).ok()?;
        let mut vm = VM::new(stream, cfg.to_config(), subj::lazy()).ok()?;
        let _ = vm.execute();
        let result = vm.consume();
        let mut tc = TypeChecker::new(subj::tc_config(true), subj::lazy());
        let lifted = tc.lift(result).ok()?;
        tc.assign_vars(lifted).ok()?;
        tc.infer().ok()?;
        let state = tc.state().clone();
        // Re-run the unification loop of the subject (same forest type, same `merge`) with a fixed
        // fold order, and at every class fold of every round test all pairs and triples of the
        // expressions being folded for order-dependence.
        use storage_layout_extractor::tc::{expression::InferenceSet, unification::UnificationForest};
        let mut found: BTreeSet<String> = BTreeSet::new();
        // the loop is followed along several fold orders, because the expressions that meet in later
        // rounds depend on the order chosen in earlier ones
        for variant in 0..4u64 {
        let mut scratch = state.clone();
        let mut forest = UnificationForest::new();
        for v in state.variables() {
            forest.insert(v);
        }
        for v in state.variables() {
            for e in state.inferences(v) {
                match e {
                    TE::Equal { id } => forest.union(&v, id),
                    _ => forest.add_data(&v, InferenceSet::from([e.clone()])),
                }
            }
        }
        let fold = |scratch: &mut storage_layout_extractor::tc::state::TypeCheckerState, parent_tv, items: &[&TE]| -> String {
            let mut cur = items[0].clone();
            let mut judged: Vec<String> = vec![];
            let mut eqs = 0usize;
            for e in &items[1..] {
                let m = merge(cur, (*e).clone(), parent_tv, scratch);
                cur = m.expression;
                judged.extend(m.judgements.iter().map(|j| result_kind(&j.expr)));
                eqs += m.equalities.len();
            }
            judged.sort();
            let shape = match &cur {
                TE::Packed { types, .. } => {
                    let mut b: Vec<(usize, usize)> = types.iter().map(|s| (s.offset, s.size)).collect();
                    b.sort();
                    format!("Packed{b:?}")
                }
                other => result_kind(other),
            };
            let _ = eqs;
            format!("{shape} judged{judged:?}")
        };
        let mut previous: Option<UnificationForest> = None;
        for _round in 0..12 {
            let mut progress = false;
            let mut equalities = vec![];
            let mut judgements = vec![];
            let mut new_vars = vec![];
            for (ptv, inferences) in forest.sets() {
                if inferences.is_empty() {
                    continue;
                }
                let mut ev: Vec<TE> = inferences.into_iter().collect();
                ev.sort_by_key(|e| format!("{e:?}"));
                match variant {
                    0 => {}
                    1 => ev.reverse(),
                    v => ev.sort_by_key(|e| crate::core::fnv64(format!("{v}{e:?}").as_bytes())),
                }
                // A packed encoding folded together with two or more other pieces of evidence is
                // order-dependent in many ways (which words it absorbs, which span variables end up
                // equated or judged) that the kinds of the fold outcome do not always show; that whole
                // family is one known finding and is recognised structurally.
                let npacked = ev.iter().filter(|e| matches!(e, TE::Packed { .. })).count();
                let others = ev.iter().filter(|e| !matches!(e, TE::Any)).count();
                if npacked >= 1 && others >= 3 {
                    found.insert(PACKED_FAMILY.to_string());
                }
                // large classes: one representative per abstract kind (packed encodings by their
                // span boundaries), at most 18
                let full = ev.clone();
                if ev.len() > 18 {
                    let mut seen_kinds = BTreeSet::new();
                    ev.retain(|e| {
                        let k = match e {
                            TE::Packed { types, .. } => format!("Packed{:?}", types.iter().map(|s| (s.offset, s.size)).collect::<Vec<_>>()),
                            other => te_abstract(other),
                        };
                        seen_kinds.insert(k)
                    });
                    ev.truncate(18);
                }
                if ev.len() >= 2 {
                    for i in 0..ev.len() {
                        for j in (i + 1)..ev.len() {
                            let a = fold(&mut scratch, ptv, &[&ev[i], &ev[j]]);
                            let b = fold(&mut scratch, ptv, &[&ev[j], &ev[i]]);
                            if a != b {
                                let mut k = vec![te_abstract(&ev[i]), te_abstract(&ev[j])];
                                k.sort();
                                found.insert(family_name(&k));
                            }
                        }
                    }
                    for i in 0..ev.len() {
                        for j in (i + 1)..ev.len() {
                            for l in (j + 1)..ev.len() {
                                let t = [&ev[i], &ev[j], &ev[l]];
                                let mut results = BTreeSet::new();
                                for p in [[0, 1, 2], [0, 2, 1], [1, 0, 2], [1, 2, 0], [2, 0, 1], [2, 1, 0]] {
                                    results.insert(fold(&mut scratch, ptv, &[t[p[0]], t[p[1]], t[p[2]]]));
                                }
                                if results.len() > 1 {
                                    let mut k = vec![te_abstract(t[0]), te_abstract(t[1]), te_abstract(t[2])];
                                    k.sort();
                                    found.insert(family_name(&k));
                                }
                            }
                        }
                    }
                }
                // continue the loop with a fixed fold order
                let ev = full;
                let mut cur = ev[0].clone();
                for e in &ev[1..] {
                    progress = true;
                    let m = merge(cur, e.clone(), ptv, &mut scratch);
                    cur = m.expression;
                    equalities.extend(m.equalities);
                    judgements.extend(m.judgements);
                    new_vars.extend(m.ty_vars);
                }
                forest.set_data(&ptv, InferenceSet::from([cur]));
            }
            for v in new_vars {
                forest.insert(v);
            }
            for e in equalities {
                forest.union(&e.left, &e.right);
            }
            for j in judgements {
                forest.add_data(&j.tv, InferenceSet::from([j.expr]));
            }
            if !progress || previous.as_ref() == Some(&forest) {
                break;
            }
            previous = Some(forest.clone());
        }
        }
        Some(found.into_iter().collect())
    });
    r.ok().flatten().unwrap_or_default()
}

#[derive(Clone, Debug, PartialEq, Eq)]
enum Outcome {
    Ok(Vec<(W, usize, String)>),
    Err(Vec<(String, u32)>),
    Skipped,
}

fn type_kind(t: &AbiType) -> String {
    let s = serde_json::to_value(t).unwrap_or(Value::Null);
    match s {
        Value::String(k) => k,
        Value::Object(m) => m.keys().next().cloned().unwrap_or_default(),
        _ => "?".into(),
    }
}

fn normal_type(t: &AbiType) -> String {
    match t {
        AbiType::ConflictedType { .. } => "conflicted_type".into(),
        AbiType::Array { size, tp } => format!("array[{size:?}]({})", normal_type(tp)),
        AbiType::DynArray { tp } => format!("dyn_array({})", normal_type(tp)),
        AbiType::Mapping { key_type, value_type } => format!("mapping({} => {})", normal_type(key_type), normal_type(value_type)),
        AbiType::Struct { elements } => format!(
            "struct({})",
            elements.iter().map(|e| format!("{}:{}", e.offset, normal_type(&e.typ))).collect::<Vec<_>>().join(",")
        ),
        other => format!("{other:?}"),
    }
}

fn run_once(code: &[u8], cfg: &VmCfg, order: OrderSpec, acc: &mut Acc) -> (Outcome, bool) {
    verif_hooks::set_order(order);
    verif_hooks::reset_stats();
    let wd = CountingWatchdog::budget(3_000_000);
    let r = guard(|| subj::analyze(code, cfg, true, subj::dyn_wd(&wd)));
    let stats = verif_hooks::stats();
    verif_hooks::set_order(OrderSpec::Identity);
    let folded3 = stats.get("unify.class_inferences").map(|s| s.len_ge3 > 0).unwrap_or(false);
    let out = match r {
        Err(p) => {
            acc.excluded("excluded_c01_panic");
            acc.note(format!("subject panicked (owned by C01): {}", p.signature()));
            Outcome::Skipped
        }
        Ok(_) if wd.fired() => {
            acc.excluded("excluded_c03_budget");
            Outcome::Skipped
        }
        Ok(Ok(l)) => Outcome::Ok(
            l.slots()
                .iter()
                .map(|s| (subj::from_u256(s.index.0), s.offset, normal_type(&s.typ)))
                .collect(),
        ),
        Ok(Err(e)) => Outcome::Err(subj::error_kinds(&e)),
    };
    (out, folded3)
}

fn order_name(o: OrderSpec) -> String {
    match o {
        OrderSpec::Identity => "natural".into(),
        OrderSpec::Reverse => "reverse".into(),
        OrderSpec::Sorted => "sorted".into(),
        OrderSpec::Shuffle(s) => format!("shuffle({s})"),
    }
}

fn kind_of_normal(s: &str) -> String {
    s.split(|c: char| !(c.is_alphanumeric() || c == '_')).next().unwrap_or("").to_lowercase()
}

thread_local! {
    static KNOWN: std::cell::RefCell<BTreeSet<String>> = const { std::cell::RefCell::new(BTreeSet::new()) };
}

pub fn check_code(code: &[u8], permissive: bool, shuffles: &[u64], naturals: usize, strict: bool, acc: &mut Acc) -> CaseResult {
    let case = json!({ "bytes": hex::encode(code), "permissive": permissive, "shuffles": shuffles, "naturals": naturals });
    let fail = |sig: String, detail: String| CaseResult::Fail(Violation::new(sig, detail, case.clone()));
    let cfg = VmCfg {
        permissive,
        ..VmCfg::default()
    };
    let mut orders: Vec<OrderSpec> = vec![OrderSpec::Identity; naturals];
    orders.push(OrderSpec::Reverse);
    orders.push(OrderSpec::Sorted);
    orders.extend(shuffles.iter().map(|s| OrderSpec::Shuffle(*s)));
    // programs that contain one of the known order-dependent evidence families are taken out of the
    // layout-equality comparison by construction (and counted): they would end the search at the same
    // finding over and over; they get the weaker comparison below
    let causes = diagnose(code, &cfg);
    let known_here: Vec<&String> = causes
        .iter()
        .filter(|c| KNOWN.with(|k| k.borrow().contains(&format!("the result depends on the iteration order; order-dependent evidence: {c}"))))
        .collect();
    if !known_here.is_empty() && !strict {
        acc.excluded("weak_comparison_only_known_order_dependent_evidence");
        acc.count(&format!("known-family {}", known_here[0]), 1);
        // The known families make the *types* at the slots they touch order-dependent, and with them
        // whether unification reaches a fixed point at all (UnificationIncomplete in some orders, with
        // differing round counts). What they do not explain is a different set of reported slots between
        // two successful runs, or an error from an earlier stage in one order only: those are still
        // compared for these programs (a weaker oracle than layout equality, but not none).
        #[derive(PartialEq, Debug)]
        enum Weak {
            Slots(Vec<String>),
            EarlierError(Vec<String>),
        }
        let project = |o: &Outcome| -> Option<Weak> {
            match o {
                Outcome::Ok(v) => {
                    let mut s: Vec<String> = v.iter().map(|(i, _, _)| format!("{i:?}")).collect();
                    s.sort();
                    s.dedup();
                    Some(Weak::Slots(s))
                }
                Outcome::Err(e) if e.iter().all(|(k, _)| k.starts_with("Unification::")) => None,
                Outcome::Err(e) => {
                    let mut k: Vec<String> = e.iter().map(|(k, l)| format!("{k}@{l}")).collect();
                    k.sort();
                    Some(Weak::EarlierError(k))
                }
                Outcome::Skipped => None,
            }
        };
        let mut reference: Option<(Weak, Outcome, OrderSpec)> = None;
        for o in orders.iter() {
            let (out, _) = run_once(code, &cfg, *o, acc);
            if out == Outcome::Skipped {
                return CaseResult::Pass;
            }
            let Some(po) = project(&out) else {
                acc.count("weak comparison: run ended in a unification error (tolerated, known family)", 1);
                continue;
            };
            acc.count("analyses (weak comparison)", 1);
            match &reference {
                None => reference = Some((po, out, *o)),
                Some((pf, first, fo)) if *pf != po => {
                    let sig = match (pf, &po) {
                        (Weak::Slots(_), Weak::Slots(_)) => {
                            "the set of reported slots depends on the iteration order in a program with known order-dependent evidence"
                        }
                        _ => "an error from before unification depends on the iteration order in a program with known order-dependent evidence",
                    };
                    return fail(
                        sig.to_string(),
                        format!(
                            "order {} gave {:?}\norder {} gave {:?}\nknown order-dependent evidence here: {:?}",
                            order_name(*o), out, order_name(*fo), first, known_here
                        ),
                    );
                }
                _ => {}
            }
        }
        acc.label("weak-comparison (known order-dependent evidence present)");
        return CaseResult::Pass;
    }
    let (first, mut folded3) = run_once(code, &cfg, orders[0], acc);
    if first == Outcome::Skipped {
        return CaseResult::Pass;
    }
    let mut nonempty = matches!(&first, Outcome::Ok(v) if !v.is_empty());
    for o in orders.iter().skip(1) {
        let (out, f3) = run_once(code, &cfg, *o, acc);
        folded3 |= f3;
        if out == Outcome::Skipped {
            return CaseResult::Pass;
        }
        acc.count("analyses", 1);
        if out != first {
            let sig = match (&first, &out) {
                (Outcome::Ok(a), Outcome::Ok(b)) => {
                    let sa: BTreeSet<_> = a.iter().cloned().collect();
                    let sb: BTreeSet<_> = b.iter().cloned().collect();
                    if sa == sb {
                        "the order of layout entries depends on the iteration order".to_string()
                    } else {
                        // the first differing position
                        let da: Vec<_> = sa.difference(&sb).collect();
                        let db: Vec<_> = sb.difference(&sa).collect();
                        let mut kinds: Vec<String> = da.iter().chain(db.iter()).map(|(_, _, t)| kind_of_normal(t)).collect();
                        kinds.sort();
                        kinds.dedup();
                        let same_place = da.iter().any(|x| db.iter().any(|y| x.0 == y.0 && x.1 == y.1));
                        if same_place {
                            format!("a slot's type depends on the iteration order: {{{}}}", kinds.join(" | "))
                        } else {
                            format!("layout entries appear or vanish with the iteration order: {{{}}}", kinds.join(" | "))
                        }
                    }
                }
                (Outcome::Ok(_), Outcome::Err(e)) | (Outcome::Err(e), Outcome::Ok(_)) => {
                    let mut k: Vec<String> = e.iter().map(|(k, _)| k.clone()).collect();
                    k.sort();
                    k.dedup();
                    format!("success or failure depends on the iteration order (error kinds {{{}}})", k.join(", "))
                }
                _ => "the errors reported depend on the iteration order".to_string(),
            };
            acc.mark(fnv64(code), true);
            // root cause: evidence whose fold through merge is order-dependent
            let sig = match causes.first() {
                Some(c) => format!("the result depends on the iteration order; order-dependent evidence: {c}"),
                None => sig,
            };
            return fail(
                sig,
                format!("order {} gave {:?}\nfirst run gave {:?}\norder-dependent evidence sets: {:?}", order_name(*o), out, first, causes),
            );
        }
        nonempty |= matches!(&out, Outcome::Ok(v) if !v.is_empty());
    }
    acc.label_if(folded3, "class-folded>=3");
    acc.label_if(nonempty, "layout-nonempty");
    if let Outcome::Ok(v) = &first {
        acc.label_if(v.iter().any(|(_, _, t)| t.contains("conflicted_type")), "slot-with-conflict");
    }
    acc.mark(fnv64(code), folded3 && nonempty);
    CaseResult::Pass
}

/// re-analyse in fresh processes (thorough tier): the natural order of another process
fn check_across_processes(code: &[u8], acc: &mut Acc) -> CaseResult {
    let exe = std::env::current_exe().expect("exe");
    let mut outs = BTreeSet::new();
    for _ in 0..4 {
        let o = std::process::Command::new(&exe)
            .args(["analyze", &hex::encode(code), "permissive"])
            .output();
        if let Ok(o) = o {
            // drop the disassembly line
            let text = String::from_utf8_lossy(&o.stdout).lines().skip(1).collect::<Vec<_>>().join("\n");
            // conflict payloads are not part of equality
            let v: Vec<String> = text
                .lines()
                .map(|l| match serde_json::from_str::<storage_layout_extractor::layout::StorageSlot>(l) {
                    Ok(s) => format!("{:?} {} {}", s.index, s.offset, normal_type(&s.typ)),
                    Err(_) => l.to_string(),
                })
                .collect();
            outs.insert(v.join("\n"));
        }
    }
    acc.label("fresh-processes");
    if outs.len() > 1 {
        // look for the root cause the way a replay does (more orders, no exclusion): the diagnosis runs in
        // one hash order and can miss a class that only forms in another
        let more: Vec<u64> = (0..28u64).map(|i| i.wrapping_mul(0x9e37_79b9_7f4a_7c15) ^ 0xabcd).collect();
        if let CaseResult::Fail(v) = check_code(code, true, &more, 8, true, acc) {
            return CaseResult::Fail(v);
        }
        return CaseResult::Fail(Violation::new(
            "the layout differs between fresh processes",
            format!("{outs:?}"),
            json!({ "bytes": hex::encode(code), "permissive": true, "shuffles": [1, 2, 3, 4], "naturals": 4 }),
        ));
    }
    CaseResult::Pass
}

fn run_shard(ctx: &ShardCtx, acc: &mut Acc) {
    let tier = ctx.tier;
    let (naturals, nshuffles) = tier.pick((4usize, 4usize), (8, 16));
    crate::core::set_search_limits(150, 8);
    KNOWN.with(|k| {
        *k.borrow_mut() = ctx.known.known.iter().filter(|f| f.property == "C02").map(|f| f.signature.clone()).collect();
    });
    drive(ctx, "orders", tier.pick(3_000, 40_000), 700, acc, &|ch, acc| {
        let permissive = ch.chance(1, 3);
        let (name, code): (&str, Vec<u8>) = match ch.below(12) {
            10 | 11 => ("shared", g_shared(ch).code()),
            0..=1 => ("clash", g_clash(ch, true).code()),
            // most clash programs avoid packed accesses: the packed family is a known finding and
            // programs that contain it are excluded from the comparison
            2..=6 => ("clash", g_clash(ch, false).code()),
            7 => {
                let t = idiom::gen_truth(ch, 6);
                ("idiom", asm::assemble(&idiom::compile(&t, 0xa0b0_0000)))
            }
            8 => ("struct", gen::g_struct(ch, 50).code()),
            _ => ("mutreal", gen::g_mutreal(ch, tier.pick(300, 1200)).1),
        };
        acc.label(&format!("gen:{name}"));
        let shuffles: Vec<u64> = (0..nshuffles).map(|_| ch.u64()).collect();
        acc.sample(|| json!({ "generator": name, "bytes": hex::encode(&code[..code.len().min(200)]), "len": code.len(), "orders": format!("{naturals} natural + reverse + sorted + {nshuffles} seeded shuffles") }));
        match check_code(&code, permissive, &shuffles, naturals, false, acc) {
            CaseResult::Pass => {}
            f => return f,
        }
        if tier == Tier::Thorough && ch.chance(1, 100) {
            return check_across_processes(&code, acc);
        }
        CaseResult::Pass
    });
}

fn replay(case: &Value, acc: &mut Acc) -> CaseResult {
    let code = hex::decode(case["bytes"].as_str().expect("replay case: bytes")).expect("replay case: hex");
    let shuffles: Vec<u64> = serde_json::from_value(case["shuffles"].clone()).unwrap_or_else(|_| vec![1, 2, 3, 4]);
    // a replay explores more orders than the run that found the case
    let mut more = shuffles.clone();
    more.extend((0..24u64).map(|i| i.wrapping_mul(0x9e37_79b9_7f4a_7c15) ^ 0xabcd));
    let naturals = case["naturals"].as_u64().unwrap_or(4) as usize;
    check_code(&code, case["permissive"].as_bool().unwrap_or(false), &more, naturals.max(8), true, acc)
}

#[allow(dead_code)]
fn _k(t: &AbiType) -> String {
    type_kind(t)
}

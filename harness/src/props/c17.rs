//! C17 — strict mode surfaces every execution error; permissive mode tolerates bad jumps.

use crate::{
    asm,
    core::{drive, fnv64, guard, Acc, CaseResult, ShardCtx, Tier, Violation},
    evmref::{self, End, ErrKind, RefCfg},
    gen::{g_cf, CfOpts},
    props::PropDef,
    subj::{self, is_jump_target_kind, VmCfg},
};
use serde_json::{json, Value};
use std::collections::BTreeMap;

pub fn def() -> PropDef {
    PropDef {
        id: "C17",
        level: "exploration",
        rule: "control-flow programs (as for C08) with injected faults: JUMP/JUMPI to non-JUMPDEST, out-of-range, push-data, 2^32+x and \
               symbolic targets, stack underflow, stack overflow (1025 pushes), gas exhaustion through a low gas limit; each run in \
               strict and in permissive mode. Relations: (R1) strict Ok => permissive Ok with an equal layout; (R2) no error list \
               returned in permissive mode contains a jump-target kind; (R3) on VM::execute, the non-jump-target errors are the same \
               multiset in both modes, permissive fails iff that multiset is non-empty, strict fails iff the full multiset is; (R4) \
               for loop-free programs strict mode's errors are exactly the reference EVM's (kind class, offset); (R5) every error is \
               located inside the code. distinct = hash of (bytecode, gas limit); non-trivial = the program raises >= 1 error",
        assumptions: &[
            "reference EVM predicts errors per path; a JUMP (not JUMPI) with a symbolic target ends the path without an error, as the subject documents",
            "gas exhaustion is compared only far from the limit (the subject charges the minimum cost after executing)",
        ],
        run_shard,
        replay,
        describe: None,
        health,
        exhaustive: None,
    }
}

fn health(acc: &Acc, _t: Tier) -> Vec<String> {
    crate::props::require_labels(
        acc,
        &[
            ("err:NoSuchStackFrame", 100),
            ("err:StackDepthExceeded", 10),
            ("err:InvalidJumpTarget", 200),
            ("err:NonExistentJumpTarget", 200),
            ("err:NoConcreteJumpDestination", 50),
            ("err:GasLimitExceeded", 500),
            ("r4-gas-error-expected", 500),
            ("strict-ok", 200),
            ("r4-compared", 1000),
            ("mixed-jump-and-other-errors", 50),
        ],
    )
}

fn class_of(kind: &str) -> &'static str {
    match kind {
        "NoSuchStackFrame" => "underflow",
        "StackDepthExceeded" => "overflow",
        "InvalidJumpTarget" | "NonExistentJumpTarget" | "InvalidOffsetForJump" => "bad-jump-target",
        "NoConcreteJumpDestination" => "symbolic-jump-target",
        "GasLimitExceeded" => "gas",
        _ => "other",
    }
}

fn ref_class(k: ErrKind) -> &'static str {
    match k {
        ErrKind::StackUnderflow => "underflow",
        ErrKind::StackOverflow => "overflow",
        ErrKind::JumpNotJumpdest | ErrKind::JumpOutOfRange => "bad-jump-target",
        ErrKind::JumpSymbolic => "symbolic-jump-target",
    }
}

pub fn check(code: &[u8], gas_limit: usize, acc: &mut Acc) -> CaseResult {
    let case = json!({ "bytes": hex::encode(code), "gas_limit": gas_limit });
    let fail = |sig: String, detail: String| CaseResult::Fail(Violation::new(sig, detail, case.clone()));
    let strict = VmCfg {
        gas_limit,
        ..VmCfg::default()
    };
    let permissive = VmCfg {
        permissive: true,
        ..strict.clone()
    };
    let mut key = code.to_vec();
    key.extend_from_slice(&gas_limit.to_le_bytes());

    // ---- VM level (R3, R4, R5) ---------------------------------------------------------------------
    let wd_s = subj::CountingWatchdog::budget(3_000_000);
    let wd_p = subj::CountingWatchdog::budget(3_000_000);
    let runs = guard(|| {
        (
            subj::run_vm(code, &strict, subj::dyn_wd(&wd_s)),
            subj::run_vm(code, &permissive, subj::dyn_wd(&wd_p)),
        )
    });
    let (rs, rp) = match runs {
        Err(p) => {
            acc.excluded("excluded_c01_panic");
            acc.note(format!("subject panicked (owned by C01): {}", p.signature()));
            return CaseResult::Pass;
        }
        Ok((Ok(a), Ok(b))) => (a, b),
        Ok((Err(e), _)) | Ok((_, Err(e))) => return fail("the VM could not be set up for a generated program".into(), e),
    };
    if wd_s.fired() || wd_p.fired() {
        acc.excluded("excluded_c03_budget");
        return CaseResult::Pass;
    }
    let all_s: Vec<(String, u32)> = {
        let mut v = rs.errors.clone();
        v.sort();
        v
    };
    let all_p: Vec<(String, u32)> = {
        let mut v = rp.errors.clone();
        v.sort();
        v
    };
    acc.mark(fnv64(&key), !all_s.is_empty());
    for (k, _) in &all_s {
        acc.label(&format!("err:{k}"));
    }
    let has_jump = all_s.iter().any(|(k, _)| is_jump_target_kind(k));
    let has_other = all_s.iter().any(|(k, _)| !is_jump_target_kind(k));
    acc.label_if(has_jump && has_other, "mixed-jump-and-other-errors");
    // R5
    for (k, loc) in all_s.iter().chain(all_p.iter()) {
        if *loc as usize >= code.len() {
            return fail(
                format!("an error is located outside the code ({k})"),
                format!("{k} at {loc}, code length {}", code.len()),
            );
        }
    }
    // R3
    let non_jump = |v: &Vec<(String, u32)>| -> Vec<(String, u32)> { v.iter().filter(|(k, _)| !is_jump_target_kind(k)).cloned().collect() };
    if let Some((k, _)) = all_p.iter().find(|(k, _)| is_jump_target_kind(k)) {
        let via = if all_p.iter().any(|(kk, l)| kk == k && code.get(*l as usize) == Some(&0x57)) {
            "JUMPI"
        } else {
            "JUMP"
        };
        return fail(
            format!("permissive mode reports a jump-target error raised by {via}"),
            format!("permissive execute() errors: {all_p:?}"),
        );
    }
    if non_jump(&all_s) != non_jump(&all_p) {
        return fail(
            "the non-jump-target errors differ between strict and permissive mode".into(),
            format!("strict {:?}\npermissive {:?}", non_jump(&all_s), non_jump(&all_p)),
        );
    }
    if rp.failed != !non_jump(&all_p).is_empty() {
        return fail(
            "permissive execute() fails although only jump-target errors occurred (or succeeds despite other errors)".into(),
            format!("failed={} errors={all_p:?}", rp.failed),
        );
    }
    if rs.failed != !all_s.is_empty() {
        return fail("strict execute() result does not reflect its error list".into(), format!("failed={} errors={all_s:?}", rs.failed));
    }
    // R4: against the reference
    let gas = rs.gas.clone();
    let gas_of = |i: usize| gas.get(i).copied().unwrap_or(0);
    let rr = evmref::run(
        code,
        &RefCfg {
            gas_of: &gas_of,
            gas_limit: gas_limit as u64,
            visit_limit: 1,
            max_paths: 3_000,
            max_steps: 600_000,
            selfdestruct_halts: true,
        },
    );
    let loop_free = rr.complete && rr.paths.iter().all(|p| !matches!(p.end, End::Budget));
    if loop_free {
        // expected (class, offset) multiset
        let mut want: BTreeMap<(&'static str, u32), usize> = BTreeMap::new();
        for p in &rr.paths {
            if let Some(at) = p.gas_error_at {
                *want.entry(("gas", at as u32)).or_default() += 1;
            }
            if let End::Error(k) = p.end {
                // a JUMP with a symbolic target ends the path silently (documented subject behaviour)
                if !(k == ErrKind::JumpSymbolic && code[p.end_offset] == 0x56) {
                    *want.entry((ref_class(k), p.end_offset as u32)).or_default() += 1;
                }
            }
        }
        // JUMPI soft errors: one per occurrence (paths forked afterwards share the event)
        let mut seen_soft = std::collections::BTreeSet::new();
        for p in &rr.paths {
            for (k, at, event) in &p.soft_errors {
                if seen_soft.insert(*event) {
                    *want.entry((ref_class(*k), *at as u32)).or_default() += 1;
                }
            }
        }
        acc.label("r4-compared");
        acc.label_if(want.keys().any(|(c, _)| *c == "gas"), "r4-gas-error-expected");
        let mut got: BTreeMap<(&'static str, u32), usize> = BTreeMap::new();
        for (k, loc) in &all_s {
            *got.entry((class_of(k), *loc)).or_default() += 1;
        }
        if got != want {
            let missing: Vec<_> = want.iter().filter(|(k, n)| got.get(*k).copied().unwrap_or(0) < **n).collect();
            let extra: Vec<_> = got.iter().filter(|(k, n)| want.get(*k).copied().unwrap_or(0) < **n).collect();
            let what = if let Some(((c, at), _)) = missing.first() {
                format!("a {c} error the EVM raises is not listed (at opcode {:#04x})", code[*at as usize])
            } else if let Some(((c, _), _)) = extra.first() {
                format!("a {c} error is listed that the EVM does not raise")
            } else {
                "error multiplicities differ".into()
            };
            return fail(
                format!("strict mode's error list differs from the EVM's errors: {what}"),
                format!("subject {got:?}\nreference {want:?}"),
            );
        }
    }

    // ---- analyze() level (R1, R2) ----------------------------------------------------------------------
    let wd1 = subj::CountingWatchdog::budget(3_000_000);
    let wd2 = subj::CountingWatchdog::budget(3_000_000);
    let res = guard(|| {
        (
            subj::analyze(code, &strict, true, subj::dyn_wd(&wd1)),
            subj::analyze(code, &permissive, true, subj::dyn_wd(&wd2)),
        )
    });
    let (a_s, a_p) = match res {
        Err(p) => {
            acc.excluded("excluded_c01_panic");
            acc.note(format!("subject panicked (owned by C01): {}", p.signature()));
            return CaseResult::Pass;
        }
        Ok(x) => x,
    };
    if wd1.fired() || wd2.fired() {
        acc.excluded("excluded_c03_budget");
        return CaseResult::Pass;
    }
    if let Err(e) = &a_p {
        for (k, loc) in subj::error_kinds(e) {
            let inner = k.split("::").last().unwrap_or("").to_string();
            if is_jump_target_kind(&inner) {
                return fail(
                    "permissive analyze() returns a jump-target error".into(),
                    format!("{k} at {loc}"),
                );
            }
            if loc as usize >= code.len() && k.starts_with("Execution") {
                return fail(format!("an error is located outside the code ({inner})"), format!("{k} at {loc}"));
            }
        }
    }
    if let Ok(ls) = &a_s {
        acc.label("strict-ok");
        match &a_p {
            Ok(lp) if lp == ls => {}
            Ok(lp) => {
                // C02-unstable layouts are excluded (owned by C02): re-run strict once more
                let again = guard(|| subj::analyze(code, &strict, true, subj::lazy()));
                if let Ok(Ok(l2)) = again {
                    if &l2 != ls {
                        acc.excluded("excluded_unstable_c02");
                        return CaseResult::Pass;
                    }
                }
                return fail(
                    "strict mode succeeds but permissive mode returns a different layout".into(),
                    format!("strict {:?}\npermissive {:?}", ls.slots(), lp.slots()),
                );
            }
            Err(e) => {
                return fail(
                    "strict mode succeeds but permissive mode fails".into(),
                    format!("permissive errors: {:?}", subj::error_kinds(e)),
                )
            }
        }
    }
    CaseResult::Pass
}

fn run_shard(ctx: &ShardCtx, acc: &mut Acc) {
    drive(ctx, "faults", ctx.tier.pick(90_000, 400_000), 700, acc, &|ch, acc| {
        let back = ch.chance(1, 6);
        let p = g_cf(
            ch,
            &CfOpts {
                back_edges: back,
                faults: true,
                trunc_tail: true,
                max_blocks: 7,
            },
        );
        let code = p.b.code();
        for f in &p.features {
            if f.starts_with("fault:") {
                acc.label(f);
            }
        }
        let default_gas = VmCfg::default().gas_limit;
        let gas_limit = if ch.chance(1, 2) {
            default_gas
        } else {
            // aim at the cumulative minimum gas of some reference path after some instruction, +-1
            let table = subj::gas_table(&code).unwrap_or_default();
            let gas_of = |i: usize| table.get(i).copied().unwrap_or(0);
            let rr = evmref::run(
                &code,
                &RefCfg {
                    gas_of: &gas_of,
                    gas_limit: u64::MAX,
                    visit_limit: 1,
                    max_paths: 200,
                    max_steps: 50_000,
                    selfdestruct_halts: true,
                },
            );
            let mut sums: Vec<u64> = vec![];
            for p in &rr.paths {
                let mut g = 0u64;
                for o in &p.executed {
                    g += gas_of(*o);
                    sums.push(g);
                }
            }
            sums.sort();
            sums.dedup();
            if sums.is_empty() {
                300
            } else {
                let v = *ch.pick(&sums);
                (match ch.below(3) {
                    0 => v,
                    1 => v.saturating_sub(1),
                    _ => v + 1,
                })
                .max(1) as usize
            }
        };
        acc.sample(|| json!({ "bytes": hex::encode(&code[..code.len().min(200)]), "len": code.len(), "gas_limit": gas_limit, "features": p.features, "asm": asm::disasm(&code[..code.len().min(120)]) }));
        check(&code, gas_limit, acc)
    });
}

fn replay(case: &Value, acc: &mut Acc) -> CaseResult {
    let code = hex::decode(case["bytes"].as_str().expect("replay case: bytes")).expect("replay case: hex");
    let gas = case["gas_limit"].as_u64().unwrap_or(VmCfg::default().gas_limit as u64) as usize;
    check(&code, gas, acc)
}

//! C01 — analysis is total: it returns a layout or a structured error, never crashes.

use crate::{
    asm,
    core::{drive, fnv64, guard, Acc, CaseResult, Chooser, ShardCtx, Tier, Violation},
    decode::{classify, Kind},
    gen::{self, CfOpts, ConstOpts},
    props::PropDef,
    subj::{self, CountingWatchdog, VmCfg},
};
use serde_json::{json, Value};
use storage_layout_extractor as sle;

pub fn def() -> PropDef {
    PropDef {
        id: "C01",
        level: "exploration",
        rule: "byte strings from eight generators (raw bytes; well-formed compiler idioms over a ground-truth layout; stack-aware programs over the whole opcode table with boundary \
               operands; constant programs; control-flow shapes with invalid targets; loops; hostile mask/shift/hash storage \
               idioms with constants >= 256, near 2^64 and 2^255; mutated real contracts) x generated VM configurations (positive \
               limits) x strict/permissive; each run through the staged API (disassemble, prepare_vm, execute, prepare_unifier, \
               infer) and, for a quarter, through analyze(); every 8th case uses the shipped tc::Config::default(). Oracle: the \
               call returns Ok or Err; a caught panic or a killed child process is a violation keyed by panic site. distinct = \
               hash of (bytes, config); non-trivial = disassembly succeeded and >= 3 instructions were executed",
        assumptions: &[
            "cases run in child processes with 8 MiB stacks; a death by signal is attributed to the case in flight",
            "a poll-budget watchdog (counting, not timing) ends runaway cases; those are C03's business and are counted, not reported",
        ],
        run_shard,
        replay,
        describe: Some(describe),
        health,
        exhaustive: None,
    }
}

fn health(acc: &Acc, _t: Tier) -> Vec<String> {
    crate::props::require_labels(
        acc,
        &[
            ("gen:raw", 100),
            ("gen:struct", 500),
            ("gen:const", 100),
            ("gen:cf", 100),
            ("gen:loop", 100),
            ("gen:hostile-idiom", 300),
            ("gen:idiom", 300),
            ("gen:mutreal", 100),
            ("reached-typechecker", 1000),
            ("layout-nonempty", 300),
            ("permissive", 500),
            ("non-default-config", 1000),
            ("real-default-tc-config", 200),
        ],
    )
}

#[derive(Clone, Debug)]
pub struct Case {
    pub bytes: Vec<u8>,
    pub cfg:   VmCfg,
    pub gen:   &'static str,
    pub one_call: bool,
    pub real_tc:  bool,
    /// nesting depth the program builds through one repeated instruction (0: not a deep-chain program)
    pub deep:     usize,
}

/// Known finding: recursion over value trees (size, hashing, transformation, drop) is as deep as the value,
/// and the only bound on a value's depth is the configured size limit; from roughly 20 000 levels an
/// 8 MiB stack overflows. Cases of that class are not run (each would kill the shard process).
pub const DEEP_CLASS: usize = 10_000;
pub const DEEP_SIGNATURE: &str =
    "native stack overflow on a value nested 10000 or more levels deep (value size limit of 10000 or more)";

/// one source, one instruction (or short group) repeated `n` times on top of it, one sink
pub fn g_deep_chain(ch: &mut Chooser) -> (Vec<u8>, usize) {
    let source: &[u8] = *ch.pick(&[&[0x33u8][..], &[0x34], &[0x5f, 0x35], &[0x30], &[0x5f, 0x54]]);
    let unit: &[u8] = *ch.pick(&[
        &[0x15u8][..],    // ISZERO
        &[0x19],          // NOT
        &[0x31],          // BALANCE
        &[0x3b],          // EXTCODESIZE
        &[0x3f],          // EXTCODEHASH
        &[0x40],          // BLOCKHASH
        &[0x35],          // CALLDATALOAD
        &[0x51],          // MLOAD
        &[0x54],          // SLOAD
        &[0x60, 0x01, 0x01], // PUSH1 1 ADD
        &[0x60, 0x02, 0x0a], // PUSH1 2 EXP
        &[0x5f, 0x1b],       // PUSH0 SHL
    ]);
    let sink: &[u8] = *ch.pick(&[&[0x5fu8, 0x55, 0x00][..], &[0x5f, 0x52, 0x00], &[0x50, 0x00], &[0x5f, 0x5f, 0xa1, 0x00], &[0x5f, 0xf3]]);
    let room = (24_576 - source.len() - sink.len()) / unit.len();
    let n = (*ch.pick(&[60usize, 249, 250, 251, 1_000, 4_000, 9_000, 12_000, 20_000, 24_576])).min(room);
    let mut code = source.to_vec();
    for _ in 0..n {
        code.extend_from_slice(unit);
    }
    code.extend_from_slice(sink);
    (code, n)
}

/// hostile storage idioms: mask/shift/multiply/hash patterns around storage with constants at
/// and beyond every width the lifting passes convert to native integers
pub fn g_hostile_idiom(ch: &mut Chooser) -> gen::B {
    use crate::refword::W;
    let mut b = gen::B::new();
    let hostile = |ch: &mut Chooser| -> W {
        match ch.below(8) {
            0 => W::from_u64(256),
            1 => W::from_u64(255),
            2 => W::from_u64(u64::MAX),
            3 => W::from_u128(1u128 << 64),
            4 => W::pow2(255),
            5 => W::MAX,
            6 => W::from_u64(ch.below(300) as u64),
            _ => ch.word(),
        }
    };
    let n = ch.range(1, 6);
    for _ in 0..n {
        let slot = W::from_u64(ch.below(4) as u64);
        match ch.below(10) {
            0 => {
                // (sload(s) >> k) & mask  -> store elsewhere
                b.push(slot);
                b.emit(asm::SLOAD);
                let k = hostile(ch);
                b.push(k);
                b.emit(asm::SHR);
                let m = ch.word();
                b.push(m);
                b.emit(asm::AND);
                b.push(W::from_u64(9));
                b.emit(asm::SSTORE);
            }
            1 => {
                // (sload(s) / 2^k) & mask with a huge exponent
                b.push(slot);
                b.emit(asm::SLOAD);
                let k = hostile(ch);
                if ch.chance(1, 2) {
                    b.push(k);
                    b.push(W::from_u64(2));
                    b.emit(asm::EXP);
                } else {
                    b.push(k);
                    b.push(W::ONE);
                    b.emit(asm::SWAP1);
                    b.emit(asm::SHL);
                }
                b.emit(asm::SWAP1);
                b.emit(asm::DIV);
                let m = ch.word();
                b.push(m);
                b.emit(asm::AND);
                b.push(W::from_u64(8));
                b.emit(asm::SSTORE);
            }
            2 => {
                // packed write: (v & mask) * 2^off | (sload(s) & ~(mask * 2^off))
                let mask = *ch.pick(&[W::from_u64(0xff), W::pow2(160).sub(W::ONE), W::pow2(128).sub(W::ONE), W::MAX, W::pow2(255)]);
                let off = hostile(ch);
                b.emit(asm::CALLER);
                b.push(mask);
                b.emit(asm::AND);
                if ch.chance(1, 2) {
                    b.push(off);
                    b.emit(asm::SHL);
                } else {
                    let m = if ch.chance(1, 2) { W::pow2((off.low_u64() % 256) as u32) } else { off };
                    b.push(m);
                    b.emit(asm::MUL);
                }
                b.push(slot);
                b.emit(asm::SLOAD);
                let keep = ch.word();
                b.push(keep);
                b.emit(asm::AND);
                b.emit(asm::OR);
                b.push(slot);
                b.emit(asm::SSTORE);
            }
            3 => {
                // mapping access keccak(key . slot) + projection constant
                b.emit(asm::CALLER);
                b.push(W::ZERO);
                b.emit(asm::MSTORE);
                b.push(slot);
                b.push(W::from_u64(32));
                b.emit(asm::MSTORE);
                b.push(W::from_u64(64));
                b.push(W::ZERO);
                b.emit(asm::SHA3);
                let proj = hostile(ch);
                b.push(proj);
                b.emit(asm::ADD);
                if ch.chance(1, 2) {
                    b.emit(asm::SLOAD);
                    b.emit(asm::POP);
                } else {
                    b.emit(asm::CALLVALUE);
                    b.emit(asm::SWAP1);
                    b.emit(asm::SSTORE);
                }
            }
            4 => {
                // sha3 / copies / returns with hostile offsets and sizes
                let (o, s) = (hostile(ch), hostile(ch));
                b.push(s);
                b.push(o);
                match ch.below(5) {
                    0 => {
                        b.emit(asm::SHA3);
                        b.push(slot);
                        b.emit(asm::SSTORE);
                    }
                    1 => {
                        let d = hostile(ch);
                        b.push(d);
                        b.emit(*ch.pick(&[asm::CALLDATACOPY, asm::CODECOPY, asm::RETURNDATACOPY]));
                    }
                    2 => b.emit(asm::LOG0),
                    3 => b.emit(asm::RETURN),
                    _ => {
                        b.emit(asm::MSTORE);
                    }
                }
            }
            5 => {
                // CALL with hostile return offset / size
                for _ in 0..7 {
                    let w = hostile(ch);
                    b.push(w);
                }
                b.emit(asm::CALL);
                b.push(slot);
                b.emit(asm::SSTORE);
            }
            6 => {
                // nested masks of a loaded value, stored back to the same slot
                b.push(slot);
                b.emit(asm::SLOAD);
                for _ in 0..ch.range(1, 3) {
                    let m = ch.word();
                    b.push(m);
                    b.emit(asm::AND);
                    let k = hostile(ch);
                    b.push(k);
                    b.emit(*ch.pick(&[asm::SHR, asm::SHL, asm::MUL, asm::DIV]));
                }
                b.push(slot);
                b.emit(asm::SSTORE);
            }
            7 => {
                // dynamic array element: keccak(mem[o..o+size]) + hostile index, with every hash size
                // from 0 up (0, partial word, one word, several words)
                b.push(slot);
                b.push(W::ZERO);
                b.emit(asm::MSTORE);
                let size = *ch.pick(&[32u64, 32, 32, 0, 0, 1, 31, 33, 64, 96]);
                b.push(W::from_u64(size));
                b.push(W::from_u64(*ch.pick(&[0u64, 0, 0, 32, 1])));
                b.emit(asm::SHA3);
                let i = hostile(ch);
                b.push(i);
                if ch.chance(1, 3) {
                    b.emit(asm::SWAP1);
                }
                b.emit(asm::ADD);
                if ch.chance(1, 2) {
                    b.emit(asm::SLOAD);
                    b.push(W::from_u64(7));
                    b.emit(asm::SSTORE);
                } else {
                    b.emit(asm::CALLVALUE);
                    b.emit(asm::SWAP1);
                    b.emit(asm::SSTORE);
                }
            }
            _ => {
                // self-referential storage: the value stored into a location derived from a slot is
                // that slot's own content (an array whose elements are the array, a mapping whose
                // values or keys are the mapping, a packed word holding itself)
                b.push(slot);
                b.emit(asm::SLOAD);
                match ch.below(4) {
                    0 => {
                        // sstore(keccak(slot) + idx, sload(slot))
                        b.push(slot);
                        b.push(W::ZERO);
                        b.emit(asm::MSTORE);
                        b.push(W::from_u64(32));
                        b.push(W::ZERO);
                        b.emit(asm::SHA3);
                        b.push(W::ZERO);
                        b.emit(asm::CALLDATALOAD);
                        b.emit(asm::ADD);
                    }
                    1 => {
                        // sstore(keccak(key . slot), sload(slot))
                        b.emit(asm::CALLER);
                        b.push(W::ZERO);
                        b.emit(asm::MSTORE);
                        b.push(slot);
                        b.push(W::from_u64(32));
                        b.emit(asm::MSTORE);
                        b.push(W::from_u64(64));
                        b.push(W::ZERO);
                        b.emit(asm::SHA3);
                    }
                    2 => {
                        // sstore(keccak(sload(slot) . slot), sload(slot)): the key is the mapping itself
                        b.emit(asm::DUP1);
                        b.push(W::ZERO);
                        b.emit(asm::MSTORE);
                        b.push(slot);
                        b.push(W::from_u64(32));
                        b.emit(asm::MSTORE);
                        b.push(W::from_u64(64));
                        b.push(W::ZERO);
                        b.emit(asm::SHA3);
                    }
                    _ => {
                        // nested: the element location of an element location
                        b.push(slot);
                        b.push(W::ZERO);
                        b.emit(asm::MSTORE);
                        b.push(W::from_u64(32));
                        b.push(W::ZERO);
                        b.emit(asm::SHA3);
                        b.emit(asm::SLOAD);
                        b.push(W::ZERO);
                        b.emit(asm::MSTORE);
                        b.push(W::from_u64(32));
                        b.push(W::ZERO);
                        b.emit(asm::SHA3);
                        b.push(W::ONE);
                        b.emit(asm::ADD);
                    }
                }
                b.emit(asm::SSTORE);
            }
        }
    }
    b.emit(asm::STOP);
    b
}

pub fn gen_case(ch: &mut Chooser, tier: Tier) -> Case {
    let cfg = VmCfg::generate(ch);
    let one_call = ch.chance(1, 4);
    let real_tc = ch.chance(1, 8);
    let mut deep = 0usize;
    let mut cfg = cfg;
    let (gen, bytes): (&'static str, Vec<u8>) = match ch.below(21) {
        20 => {
            let (code, n) = g_deep_chain(ch);
            deep = n;
            // the size limit is what bounds the depth of a value: also limits far above the default.
            // Cost grows with depth x limit, so far larger limits meet either short chains or the chains
            // of the known class (which are counted and not run); chains of storage loads are quadratic
            // in more than the depth and stay under the generated limits
            let by_sload = code.len() > 3 && code[code.len() / 2] == 0x54 && code[code.len() / 2 + 1] == 0x54;
            if ch.chance(1, 3) && !by_sload {
                let limit = *ch.pick(&[2_000usize, 9_000, 30_000, 1_000_000]);
                if n <= 2_000 || (n >= DEEP_CLASS && limit >= DEEP_CLASS) {
                    cfg.value_size = limit;
                }
            }
            ("deep-chain", code)
        }
        0 | 1 => ("raw", gen::g_raw(ch)),
        2..=7 => ("struct", gen::g_struct(ch, 60).code()),
        8 | 9 => {
            let family = ch.below(4) as u8;
            (
                "const",
                gen::g_const(
                    ch,
                    &ConstOpts {
                        max_jumpi: 5,
                        computed_keys: true,
                        extra_alu: family,
                        len: 40,
                    },
                )
                .b
                .code(),
            )
        }
        10 | 11 => (
            "cf",
            gen::g_cf(
                ch,
                &CfOpts {
                    back_edges: true,
                    faults: true,
                    trunc_tail: true,
                    max_blocks: 8,
                },
            )
            .b
            .code(),
        ),
        12 | 13 => ("loop", gen::g_loop(ch).b.code()),
        14..=16 => ("hostile-idiom", g_hostile_idiom(ch).code()),
        17 => {
            // well-formed compiler idioms over a hidden ground-truth layout (as for C04)
            let t = crate::idiom::gen_truth(ch, 8);
            ("idiom", asm::assemble(&crate::idiom::compile(&t, 0xa0b0_0000)))
        }
        _ => {
            let max = tier.pick(300, 1500);
            ("mutreal", gen::g_mutreal(ch, max).1)
        }
    };
    Case {
        bytes,
        cfg,
        gen,
        one_call,
        real_tc,
        deep,
    }
}

fn case_json(c: &Case) -> Value {
    json!({ "bytes": hex::encode(&c.bytes), "config": c.cfg, "one_call": c.one_call, "real_tc_config": c.real_tc, "generator": c.gen, "deep": c.deep })
}

const POLL_BUDGET: u64 = 4_000_000;

pub fn check_case(c: &Case, acc: &mut Acc) -> CaseResult {
    if c.deep >= DEEP_CLASS && c.cfg.value_size >= DEEP_CLASS {
        acc.label("deep-chain:known-class-not-run");
        return CaseResult::Fail(Violation::new(
            DEEP_SIGNATURE,
            format!("{} levels under a value size limit of {} (not run)", c.deep, c.cfg.value_size),
            case_json(c),
        ));
    }
    acc.label_if(c.deep >= 1_000, "deep-chain>=1000");
    let kinds = classify(&c.bytes);
    let has_storage = kinds
        .iter()
        .enumerate()
        .any(|(i, k)| *k == Kind::Start && matches!(c.bytes[i], 0x54 | 0x55));
    acc.label(&format!("gen:{}", c.gen));
    acc.label_if(c.cfg.permissive, "permissive");
    acc.label_if(!c.cfg.is_default(), "non-default-config");
    acc.label_if(has_storage, "has-storage-access");
    acc.label_if(c.real_tc, "real-default-tc-config");
    let wd = CountingWatchdog::budget(POLL_BUDGET);
    let stage = std::cell::Cell::new("disassemble");
    let r = guard(|| {
        let ex = sle::new(subj::contract(&c.bytes), c.cfg.to_config(), subj::tc_config(!c.real_tc), subj::dyn_wd(&wd));
        if c.one_call {
            stage.set("analyze");
            return ex.analyze().map(|l| l.slots().len());
        }
        let d = ex.disassemble()?;
        stage.set("prepare_vm");
        let v = d.prepare_vm()?;
        stage.set("execute");
        let e = v.execute()?;
        stage.set("prepare_unifier");
        let u = e.prepare_unifier();
        stage.set("infer");
        let i = u.infer()?;
        Ok(i.layout().slots().len())
    });
    let polls = wd.count();
    let mut key = c.bytes.clone();
    key.extend_from_slice(format!("{:?}", c.cfg).as_bytes());
    acc.mark(fnv64(&key), polls >= 3);
    acc.max("max_polls", polls);
    match r {
        Ok(Ok(n)) => {
            acc.label("result:ok");
            acc.label("reached-typechecker");
            acc.label_if(n > 0, "layout-nonempty");
            CaseResult::Pass
        }
        Ok(Err(e)) => {
            acc.label("result:err");
            if wd.fired() {
                acc.excluded("excluded_c03_budget");
            }
            if stage.get() == "infer" || e.payloads().iter().any(|p| matches!(p.payload, sle::error::Error::Unification(_))) {
                acc.label("reached-typechecker");
            }
            CaseResult::Pass
        }
        Err(p) => CaseResult::Fail(Violation::new(
            p.signature(),
            format!("panicked in stage {}: {}", stage.get(), p.msg),
            case_json(c),
        )),
    }
}

fn run_shard(ctx: &ShardCtx, acc: &mut Acc) {
    let tier = ctx.tier;
    drive(ctx, "main", tier.pick(20_000, 250_000), 1_200, acc, &|ch, acc| {
        let c = gen_case(ch, tier);
        acc.sample(|| case_json(&c));
        check_case(&c, acc)
    });
}

fn describe(_stream: &str, choices: &[u32]) -> Value {
    // the tier only influences the size of mutated real contracts; describe both ways is not
    // possible, so crash attribution re-generates with the quick size (the replay re-checks it)
    let mut ch = Chooser::new(choices);
    let c = gen_case(&mut ch, Tier::Quick);
    case_json(&c)
}

pub fn case_from_json(case: &Value) -> Case {
    Case {
        bytes:    hex::decode(case["bytes"].as_str().expect("replay case: bytes")).expect("replay case: hex"),
        cfg:      serde_json::from_value(case["config"].clone()).unwrap_or_default(),
        gen:      "replay",
        one_call: case["one_call"].as_bool().unwrap_or(true),
        real_tc:  case["real_tc_config"].as_bool().unwrap_or(true),
        deep:     case["deep"].as_u64().unwrap_or(0) as usize,
    }
}

fn replay(case: &Value, acc: &mut Acc) -> CaseResult {
    if let Some(h) = case.get("fuzz_input_hex").and_then(|v| v.as_str()) {
        // a fuzzer input that killed the process: run it again through the same entry point; only
        // death matters here (an ordinary failure belongs to the property named in the case)
        let data = hex::decode(h).unwrap_or_default();
        let target = case["fuzz_target"].as_str().unwrap_or("fz_prop");
        let prop = case["fuzz_prop"].as_str().unwrap_or("C01");
        let r = crate::fuzzing::one_input(target, prop, &data, acc);
        return if prop == "C01" { r } else { CaseResult::Pass };
    }
    let c = case_from_json(case);
    // strict mode: both API paths and both type-checker configurations
    let mut first = None;
    for (one_call, real_tc) in [(c.one_call, c.real_tc), (!c.one_call, c.real_tc), (c.one_call, !c.real_tc)] {
        let cc = Case {
            one_call,
            real_tc,
            ..c.clone()
        };
        if let CaseResult::Fail(v) = check_case(&cc, acc) {
            first.get_or_insert(v);
        }
    }
    match first {
        Some(v) => CaseResult::Fail(v),
        None => CaseResult::Pass,
    }
}

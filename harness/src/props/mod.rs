//! One module per property.

use crate::core::{Acc, CaseResult, ShardCtx};
use serde_json::Value;

pub mod c01;
pub mod c02;
pub mod c03;
pub mod c04;
pub mod c05;
pub mod c06;
pub mod c07;
pub mod c08;
pub mod c09;
pub mod c10;
pub mod c11;
pub mod c12;
pub mod c13;
pub mod c14;
pub mod c15;
pub mod c16;
pub mod c17;
pub mod c18;
pub mod c19;
pub mod c20;

pub struct PropDef {
    pub id:          &'static str,
    pub level:       &'static str,
    pub rule:        &'static str,
    pub assumptions: &'static [&'static str],
    /// runs inside a child process, once per shard
    pub run_shard:   fn(&ShardCtx, &mut Acc),
    /// re-checks one saved case, bypassing proptest
    pub replay:      fn(&Value, &mut Acc) -> CaseResult,
    /// turns the choice stream of a crashed case into a replayable case (crash attribution)
    pub describe:    Option<fn(&str, &[u32]) -> Value>,
    /// label classes that must be populated (generator health); returns complaints
    pub health:      fn(&Acc, crate::core::Tier) -> Vec<String>,
    pub exhaustive:  Option<bool>,
}

pub fn all() -> Vec<PropDef> {
    vec![c01::def(), c02::def(), c03::def(), c04::def(), c05::def(), c06::def(), c07::def(), c08::def(), c09::def(), c10::def(), c11::def(), c12::def(), c13::def(), c14::def(), c15::def(), c16::def(), c17::def(), c18::def(), c19::def(), c20::def()]
}

pub fn find(id: &str) -> Option<PropDef> {
    all().into_iter().find(|p| p.id == id)
}

pub fn no_health(_: &Acc, _: crate::core::Tier) -> Vec<String> {
    vec![]
}

/// require each label to have at least `min` hits
pub fn require_labels(acc: &Acc, labels: &[(&str, u64)]) -> Vec<String> {
    let mut out = vec![];
    for (l, min) in labels {
        let have = acc.labels.get(*l).copied().unwrap_or(0);
        if have < *min {
            out.push(format!("label class '{l}' has {have} cases (< {min}): generator does not reach it"));
        }
    }
    out
}

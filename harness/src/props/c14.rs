//! C14 — unification ends with one equality-free type per variable and honours equalities.
//! C15 shares the state-building helpers of this module.

use crate::{
    core::{drive, fnv64, guard, Acc, CaseResult, Chooser, ShardCtx, Tier, Violation},
    props::PropDef,
    subj::{self, CountingWatchdog},
};
use serde::{Deserialize, Serialize};
use serde_json::{json, Value};
use std::collections::BTreeMap;
use storage_layout_extractor::{
    data::vector_map::ToUniqueIndex,
    error::unification::Error as UErr,
    tc::{
        expression::{Span, TypeExpression, WordUse, TE},
        state::{type_variable::TypeVariable, TypeCheckerState},
        TypeChecker,
    },
    vm::value::{known::KnownWord, Provenance, RSV, RSVD},
};

pub fn def() -> PropDef {
    PropDef {
        id: "C14",
        level: "exploration",
        rule: "judgement sets over 2-40 type variables built through the real API (register, infer) - half of the variables are \
               constant storage slots so that TypeChecker::unify also renders them: equalities, words of every usage x width, \
               dynamic bytes, mappings, fixed and dynamic arrays, packed encodings with arbitrary (overlapping, unsorted) spans, \
               cyclic references (a mapping whose value is itself, a packed span typed by its own class). Oracle: unify() returns \
               within a poll budget; no UnificationIncomplete / UnificationFailure / equality left over; type_of(v) is one \
               equality-free expression for every variable; declared-equal variables share a root and a type; two mappings / \
               dynamic arrays / equal-length fixed arrays meeting in a class that is not a conflict have their components in one \
               class. distinct = hash of the judgement list; non-trivial = a class merged >= 3 judgements, or a constructor \
               congruence fired, or a cycle is present",
        assumptions: &[
            "reference union-find over the declared equalities",
            "packed spans are generated with offsets <= 512 and sizes <= 256 bits",
            "an InvalidInference about a fixed-width usage carrying a foreign width is the documented answer to such a judgement and is not a failure",
        ],
        run_shard,
        replay,
        describe: Some(describe),
        health,
        exhaustive: None,
    }
}

fn health(acc: &Acc, _t: Tier) -> Vec<String> {
    crate::props::require_labels(
        acc,
        &[
            ("class-merged>=3", 1000),
            ("congruence:mapping", 300),
            ("congruence:dyn-array", 100),
            ("congruence:fixed-array", 60),
            ("cycle", 300),
            ("packed-overlapping", 300),
            ("unify-ok", 2000),
        ],
    )
}

// ------------------------------------------------------------------------------------------------
// judgement sets as data
// ------------------------------------------------------------------------------------------------

#[derive(Clone, Debug, PartialEq, Eq, Serialize, Deserialize)]
pub enum J {
    Any,
    Equal(usize),
    Word(Option<usize>, String),
    Bytes,
    Mapping(usize, usize),
    DynArray(usize),
    FixedArray(usize, u64),
    Packed(Vec<(usize, usize, usize)>, bool),
}

#[derive(Clone, Debug, PartialEq, Eq, Serialize, Deserialize)]
pub struct JSet {
    pub nvars: usize,
    /// (variable, judgement)
    pub js:    Vec<(usize, J)>,
}

pub const USAGES: [(&str, WordUse); 8] = [
    ("Bytes", WordUse::Bytes),
    ("Numeric", WordUse::Numeric),
    ("Unsigned", WordUse::UnsignedNumeric),
    ("Signed", WordUse::SignedNumeric),
    ("Bool", WordUse::Bool),
    ("Address", WordUse::Address),
    ("Selector", WordUse::Selector),
    ("Function", WordUse::Function),
];

pub fn usage_of(name: &str) -> WordUse {
    USAGES.iter().find(|(n, _)| *n == name).map(|(_, u)| *u).unwrap_or(WordUse::Bytes)
}

pub struct Built {
    pub checker: TypeChecker,
    pub vars:    Vec<TypeVariable>,
    pub wd:      std::rc::Rc<CountingWatchdog>,
}

/// Length of a fixed array from its code in a judgement: codes below 1000 are the length itself, the
/// codes from 1000 name lengths that do not fit 64 bits (equal low words, different high words)
pub fn fa_len(code: u64) -> ethnum::U256 {
    use ethnum::U256;
    match code {
        1000 => (U256::ONE << 64) + U256::new(3),
        1001 => (U256::ONE << 64) + U256::new(2),
        1002 => (U256::ONE << 128) + U256::new(3),
        1003 => (U256::ONE << 255) + U256::new(2),
        n => U256::from(n),
    }
}

pub fn to_te(j: &J, vars: &[TypeVariable]) -> TE {
    match j {
        J::Any => TE::Any,
        J::Equal(v) => TE::eq(vars[*v]),
        J::Word(w, u) => TE::word(*w, usage_of(u)),
        J::Bytes => TE::Bytes,
        J::Mapping(k, v) => TE::mapping(vars[*k], vars[*v]),
        J::DynArray(e) => TE::dyn_array(vars[*e]),
        J::FixedArray(e, n) => TE::FixedArray {
            element: vars[*e],
            length:  fa_len(*n),
        },
        J::Packed(spans, is_struct) => TE::Packed {
            types:     spans.iter().map(|(t, o, s)| Span::new(vars[*t], *o, *s)).collect(),
            is_struct: *is_struct,
        },
    }
}

/// Build a type checker whose state holds the judgement set. Even-numbered variables are constant
/// storage slots (rendered by `TypeChecker::unify`), odd ones opaque values.
pub fn build(set: &JSet, budget: u64) -> Built {
    let mut state = TypeCheckerState::empty();
    let mut vars = vec![];
    for i in 0..set.nvars {
        let v = if i % 2 == 0 {
            let key = RSV::new_known_value(0, KnownWord::from(i), Provenance::Synthetic, None);
            RSV::new_synthetic(0, RSVD::StorageSlot { key })
        } else {
            RSV::new_value(0, Provenance::Synthetic)
        };
        vars.push(state.register(v));
    }
    for (v, j) in &set.js {
        state.infer(vars[*v], to_te(j, &vars));
    }
    let wd = CountingWatchdog::budget(budget);
    let mut checker = TypeChecker::new(subj::tc_config(true), subj::dyn_wd(&wd));
    unsafe {
        *checker.state_mut() = state;
    }
    Built { checker, vars, wd }
}

pub fn te_kind(e: &TE) -> String {
    match e {
        TE::Any => "Any".into(),
        TE::Equal { .. } => "Equal".into(),
        TE::Word { usage, .. } => format!("Word({usage:?})"),
        TE::Bytes => "Bytes".into(),
        TE::FixedArray { .. } => "FixedArray".into(),
        TE::Mapping { .. } => "Mapping".into(),
        TE::DynamicArray { .. } => "DynamicArray".into(),
        TE::Packed { .. } => "Packed".into(),
        TE::Conflict { .. } => "Conflict".into(),
    }
}

// reference union-find
#[derive(Clone, Default)]
pub struct Uf(pub Vec<usize>);
impl Uf {
    pub fn new(n: usize) -> Self {
        Uf((0..n).collect())
    }
    pub fn find(&mut self, x: usize) -> usize {
        if self.0[x] == x {
            x
        } else {
            let r = self.find(self.0[x]);
            self.0[x] = r;
            r
        }
    }
    pub fn union(&mut self, a: usize, b: usize) {
        let (ra, rb) = (self.find(a), self.find(b));
        if ra != rb {
            self.0[ra] = rb;
        }
    }
}

// ------------------------------------------------------------------------------------------------
// generator
// ------------------------------------------------------------------------------------------------

fn gen_word(ch: &mut Chooser) -> J {
    let (name, usage) = *ch.pick(&USAGES[..]);
    let width = match usage.size() {
        Some(w) if ch.chance(5, 6) => Some(w),
        _ => *ch.pick(&[None, None, Some(8usize), Some(32), Some(128), Some(160), Some(192), Some(256)]),
    };
    J::Word(width, name.to_string())
}

pub fn gen_set(ch: &mut Chooser) -> JSet {
    let nvars = match ch.below(5) {
        0 => ch.range(2, 4),
        4 => ch.range(12, 40),
        _ => ch.range(3, 12),
    };
    let njs = ch.range(1, nvars * 2 + 2);
    let mut js = vec![];
    for _ in 0..njs {
        let v = ch.below(nvars);
        let j = match ch.below(20) {
            0..=5 => J::Equal(ch.below(nvars)),
            6..=9 => gen_word(ch),
            10 => J::Bytes,
            11 => J::Any,
            12 | 13 => {
                // sometimes cyclic: the mapping's value is the variable itself
                let value = if ch.chance(1, 5) { v } else { ch.below(nvars) };
                J::Mapping(ch.below(nvars), value)
            }
            14 => J::DynArray(if ch.chance(1, 8) { v } else { ch.below(nvars) }),
            15 | 16 => J::FixedArray(ch.below(nvars), *ch.pick(&[1u64, 2, 3, 3, 2, 1000, 1001, 1002, 1003])),
            _ => {
                let n = ch.range(1, 4);
                let spans = (0..n)
                    .map(|_| {
                        let typ = if ch.chance(1, 8) { v } else { ch.below(nvars) };
                        let (o, s) = match ch.below(4) {
                            0 => (*ch.pick(&[0usize, 8, 16, 32, 64, 128, 160, 256]), *ch.pick(&[8usize, 16, 32, 64, 96, 128, 160, 256])),
                            1 => (0, *ch.pick(&[1usize, 8, 160, 256, 0])),
                            _ => (ch.below(257), if ch.chance(1, 12) { 0 } else { ch.range(1, 256) }),
                        };
                        (typ, o, s)
                    })
                    .collect();
                J::Packed(spans, ch.chance(1, 6))
            }
        };
        js.push((v, j));
    }
    JSet { nvars, js }
}

// ------------------------------------------------------------------------------------------------
// oracle
// ------------------------------------------------------------------------------------------------

fn spans_overlap(spans: &[(usize, usize, usize)]) -> bool {
    for (i, a) in spans.iter().enumerate() {
        for b in spans.iter().skip(i + 1) {
            if a.1 < b.1 + b.2 && b.1 < a.1 + a.2 {
                return true;
            }
        }
    }
    false
}

/// kinds of the expressions left in an unresolved class; the sized special-use words form one family
fn incomplete_kinds(inferences: &storage_layout_extractor::tc::expression::InferenceSet) -> Vec<String> {
    let mut k: Vec<String> = inferences
        .iter()
        .map(|e| match e {
            TE::Word {
                usage: WordUse::Bool | WordUse::Address | WordUse::Selector | WordUse::Function | WordUse::SignedNumeric,
                width: Some(_),
            } => "Word(sized special use)".to_string(),
            other => te_kind(other),
        })
        .collect();
    k.sort();
    k.dedup();
    k
}

pub const BUDGET: u64 = 60_000;

pub fn check_set(set: &JSet, acc: &mut Acc) -> CaseResult {
    let case = json!({ "set": set });
    let fail = |sig: String, detail: String| CaseResult::Fail(Violation::new(sig, detail, case.clone()));
    // reference classes from declared equalities
    let mut uf = Uf::new(set.nvars);
    for (v, j) in &set.js {
        if let J::Equal(w) = j {
            uf.union(*v, *w);
        }
    }
    let mut per_class: BTreeMap<usize, Vec<&J>> = BTreeMap::new();
    for (v, j) in &set.js {
        if !matches!(j, J::Equal(_)) {
            per_class.entry(uf.find(*v)).or_default().push(j);
        }
    }
    let merged3 = per_class.values().any(|v| {
        let mut d: Vec<String> = v.iter().map(|j| format!("{j:?}")).collect();
        d.sort();
        d.dedup();
        d.len() >= 3
    });
    let cycle = set.js.iter().any(|(v, j)| match j {
        J::Mapping(k, val) => uf.find(*k) == uf.find(*v) || uf.find(*val) == uf.find(*v),
        J::DynArray(e) | J::FixedArray(e, _) => uf.find(*e) == uf.find(*v),
        J::Packed(s, _) => s.iter().any(|(t, _, _)| uf.find(*t) == uf.find(*v)),
        _ => false,
    });
    let packed_overlap = set.js.iter().any(|(_, j)| matches!(j, J::Packed(s, _) if spans_overlap(s)));
    acc.label_if(merged3, "class-merged>=3");
    acc.label_if(cycle, "cycle");
    acc.label_if(packed_overlap, "packed-overlapping");
    let key = fnv64(format!("{set:?}").as_bytes());

    // run
    let mut run_with = |budget: u64| {
        let mut b = build(set, budget);
        let r = guard(|| b.checker.unify());
        (b, r)
    };
    let (mut b, r) = run_with(BUDGET);
    let (mut b, r) = if b.wd.fired() {
        let (b2, r2) = run_with(16 * BUDGET);
        if b2.wd.fired() {
            acc.mark(key, true);
            return fail(
                "unification did not terminate within the poll budget".into(),
                format!("still polling after {} polls", b2.wd.count()),
            );
        }
        let _ = (&mut b, &r);
        (b2, r2)
    } else {
        (b, r)
    };
    acc.max("max_unify_polls", b.wd.count());
    let res = match r {
        Err(p) => {
            acc.mark(key, merged3 || cycle);
            return fail(format!("unification {}", p.signature()), p.msg);
        }
        Ok(r) => r,
    };
    let mut congruence_fired = false;
    if let Err(errs) = &res {
        for e in errs.payloads() {
            match &e.payload {
                UErr::UnificationIncomplete { inferences, .. } => {
                    let kinds = incomplete_kinds(inferences);
                    acc.mark(key, true);
                    return fail(
                        format!("unification left a class with several expressions: {{{}}}{}", kinds.join(", "), ""),
                        format!("{:?}", e.payload),
                    );
                }
                UErr::UnificationFailure { var } => {
                    return fail("a variable has no type after unification".into(), format!("{var:?}"));
                }
                UErr::InvalidInference { value, .. } if matches!(value, TE::Equal { .. }) => {
                    return fail("an equality is left over after unification".into(), format!("{:?}", e.payload));
                }
                _ => {}
            }
        }
        acc.label("unify-err-other");
    } else {
        acc.label("unify-ok");
    }
    // per-variable post-conditions
    let vars = b.vars.clone();
    let mut types: Vec<Option<TE>> = vec![];
    for (i, v) in vars.iter().enumerate() {
        match guard(|| b.checker.type_of(*v)) {
            Ok(Ok(TE::Equal { .. })) => return fail("a variable resolves to an equality".into(), format!("variable {i}")),
            Ok(Ok(t)) => types.push(Some(t)),
            Ok(Err(e)) => {
                let kinds = e
                    .payloads()
                    .iter()
                    .map(|p| match &p.payload {
                        UErr::UnificationIncomplete { inferences, .. } => {
                            format!("several expressions: {{{}}}", incomplete_kinds(inferences).join(", "))
                        }
                        other => format!("{other:?}").split(' ').next().unwrap_or("").to_string(),
                    })
                    .collect::<Vec<_>>()
                    .join("; ");
                acc.mark(key, true);
                return fail(
                    format!("unification left a class with {kinds}{}", ""),
                    format!("type_of(variable {i}) failed: {:?}", e.payloads().first().map(|p| &p.payload)),
                );
            }
            Err(p) => return fail(format!("type_of {}", p.signature()), p.msg),
        }
    }
    // equalities honoured
    let mut root = |b: &mut Built, i: usize| -> usize {
        let v = b.vars[i];
        unsafe { b.checker.state_mut().result().find(&v).index() }
    };
    for i in 0..set.nvars {
        for j2 in (i + 1)..set.nvars {
            if uf.find(i) == uf.find(j2) {
                if root(&mut b, i) != root(&mut b, j2) {
                    return fail(
                        "variables declared equal end in different classes".into(),
                        format!("variables {i} and {j2}"),
                    );
                }
                if types[i] != types[j2] {
                    return fail("variables declared equal resolve to different types".into(), format!("variables {i} and {j2}"));
                }
            }
        }
    }
    // constructor congruence
    for (cls, js) in &per_class {
        let resolved = types[*cls].clone();
        // conflicts are excused by the statement; dynamic bytes absorbs arrays without looking at
        // their elements (the C16 known finding), so nothing is demanded there either
        if matches!(resolved, Some(TE::Conflict { .. }) | Some(TE::Bytes)) {
            continue;
        }
        let maps: Vec<(usize, usize)> = js.iter().filter_map(|j| if let J::Mapping(k, v) = j { Some((*k, *v)) } else { None }).collect();
        for w in maps.windows(2) {
            if w[0] != w[1] {
                congruence_fired = true;
                acc.label("congruence:mapping");
                if root(&mut b, w[0].0) != root(&mut b, w[1].0) || root(&mut b, w[0].1) != root(&mut b, w[1].1) {
                    return fail(
                        "two mappings met in a non-conflicting class but their components were not unified".into(),
                        format!("class of variable {cls}: Mapping{:?} and Mapping{:?}; resolved {:?}", w[0], w[1], resolved),
                    );
                }
            }
        }
        let arrs: Vec<usize> = js.iter().filter_map(|j| if let J::DynArray(e) = j { Some(*e) } else { None }).collect();
        for w in arrs.windows(2) {
            if w[0] != w[1] {
                // dynamic bytes absorbs arrays without looking at the element (a C16 known finding): skip
                if js.iter().any(|j| matches!(j, J::Bytes)) {
                    continue;
                }
                congruence_fired = true;
                acc.label("congruence:dyn-array");
                if root(&mut b, w[0]) != root(&mut b, w[1]) {
                    return fail(
                        "two dynamic arrays met in a non-conflicting class but their elements were not unified".into(),
                        format!("class of variable {cls}: elements {} and {}; resolved {:?}", w[0], w[1], resolved),
                    );
                }
            }
        }
        let fixed: Vec<(usize, u64)> = js.iter().filter_map(|j| if let J::FixedArray(e, n) = j { Some((*e, *n)) } else { None }).collect();
        for w in fixed.windows(2) {
            if w[0].1 == w[1].1 && w[0].0 != w[1].0 {
                congruence_fired = true;
                acc.label("congruence:fixed-array");
                if root(&mut b, w[0].0) != root(&mut b, w[1].0) {
                    return fail(
                        "two fixed arrays of equal length met in a non-conflicting class but their elements were not unified".into(),
                        format!("class of variable {cls}"),
                    );
                }
            }
        }
    }
    acc.mark(key, merged3 || cycle || congruence_fired);
    CaseResult::Pass
}

fn run_shard(ctx: &ShardCtx, acc: &mut Acc) {
    drive(ctx, "sets", ctx.tier.pick(120_000, 500_000), 400, acc, &|ch, acc| {
        let set = gen_set(ch);
        acc.sample(|| json!({ "set": set }));
        check_set(&set, acc)
    });
}

/// the case a crashed shard was working on, rebuilt from its choices
fn describe(_stream: &str, choices: &[u32]) -> Value {
    let mut ch = Chooser::new(choices);
    json!({ "set": gen_set(&mut ch) })
}

fn replay(case: &Value, acc: &mut Acc) -> CaseResult {
    let set: JSet = serde_json::from_value(case["set"].clone()).expect("replay case: set");
    check_set(&set, acc)
}

#[allow(dead_code)]
fn _unused(_: TypeExpression) {}

//! C15 — compatible evidence joins to its most specific type; contradictions conflict.

use crate::{
    core::{drive, fnv64, guard, Acc, CaseResult, Chooser, ShardCtx, Tier, Violation},
    props::{
        c14::{build, te_kind, usage_of, JSet, J},
        PropDef,
    },
};
use serde::{Deserialize, Serialize};
use serde_json::{json, Value};
use storage_layout_extractor::{
    data::vector_map::ToUniqueIndex,
    tc::expression::{WordUse, TE},
};

pub fn def() -> PropDef {
    PropDef {
        id: "C15",
        level: "exploration",
        rule: "judgement sets generated from a hidden ground-truth typing: 2-6 classes, each a word (usage x width) or a mapping / \
               dynamic array / fixed array over later classes; 1-4 variables per class joined by a random spanning tree of \
               equalities; evidence = weakenings of the truth (Any, lower usages of the word lattice, unknown width, the same \
               constructor over variables of the component classes) spread over the class's variables. Consistent sets must \
               resolve every variable to the reference join (never a conflict); with ONE contradictory judgement injected \
               (different width, incompatible usage, mapping vs array, mapping vs sized word, signed length of a dynamic array / dynamic bytes) that class must resolve to a \
               conflict. distinct = hash of the judgement list; non-trivial = the checked class has >= 3 pieces of evidence on \
               >= 2 variables",
        assumptions: &[
            "reference model: congruence closure + the word lattice Bytes < Numeric < {Unsigned, Signed}, Numeric/Unsigned < Address, Bool/Selector/Function above Bytes only, width None < Some(w)",
            "only the combinations the statement names are generated as compatible (no array-length words, no dynamic bytes, no packed encodings)",
        ],
        run_shard,
        replay,
        describe: Some(describe),
        health,
        exhaustive: None,
    }
}

fn health(acc: &Acc, _t: Tier) -> Vec<String> {
    crate::props::require_labels(
        acc,
        &[
            ("consistent", 2000),
            ("contradiction:width", 300),
            ("contradiction:usage", 300),
            ("contradiction:mapping-vs-array", 200),
            ("contradiction:mapping-vs-sized-word", 100),
            ("class>=3-evidence-on>=2-vars", 1000),
            ("truth:mapping", 500),
            ("truth:dyn-array", 300),
            ("truth:fixed-array", 200),
            ("truth:dyn-bytes", 200),
            ("contradiction:signed-length", 100),
            ("join-raises-usage", 500),
            ("join-adds-width", 500),
        ],
    )
}

#[derive(Clone, Debug, PartialEq, Eq, Serialize, Deserialize)]
pub enum Truth {
    Word(String, usize),
    Mapping(usize, usize),
    DynArray(usize),
    FixedArray(usize, u64),
    /// dynamic `bytes` / `string`
    DynBytes,
}

#[derive(Clone, Debug, PartialEq, Eq, Serialize, Deserialize)]
pub struct Case {
    pub set:        JSet,
    /// class of each variable
    pub class_of:   Vec<usize>,
    pub truths:     Vec<Truth>,
    /// class that received a contradictory judgement
    pub contradicted: Option<(usize, String)>,
}

/// reference lattice: a <= b
fn usage_le(a: &str, b: &str) -> bool {
    a == b
        || a == "Bytes"
        || matches!((a, b), ("Numeric", "Unsigned") | ("Numeric", "Signed") | ("Numeric", "Address") | ("Unsigned", "Address"))
}

fn usage_join(a: &str, b: &str) -> Option<String> {
    if usage_le(a, b) {
        Some(b.to_string())
    } else if usage_le(b, a) {
        Some(a.to_string())
    } else {
        None
    }
}

const FREE: [&str; 4] = ["Bytes", "Numeric", "Unsigned", "Signed"];

fn fixed_width(u: &str) -> Option<usize> {
    usage_of(u).size()
}

pub fn gen_case(ch: &mut Chooser) -> Case {
    let nclasses = ch.range(2, 6);
    // truths: component classes are later classes; the last class is a word
    let mut truths = vec![];
    for c in 0..nclasses {
        let can_construct = c + 1 < nclasses;
        let t = if can_construct && ch.chance(2, 5) {
            let pick = |ch: &mut Chooser| ch.range(c + 1, nclasses - 1);
            match ch.below(4) {
                0 | 1 => Truth::Mapping(pick(ch), pick(ch)),
                2 => Truth::DynArray(pick(ch)),
                _ => Truth::FixedArray(pick(ch), *ch.pick(&[2u64, 3, 10, 1000, 1001, 1002, 1003])),
            }
        } else if ch.chance(1, 10) {
            Truth::DynBytes
        } else {
            let u = *ch.pick(&["Bytes", "Numeric", "Unsigned", "Signed", "Bool", "Address", "Selector", "Function", "Unsigned", "Address"]);
            let w = fixed_width(u).unwrap_or_else(|| {
                if u == "Bytes" && ch.chance(1, 5) {
                    // raw data of a width that is not a whole number of bytes
                    *ch.pick(&[4usize, 9, 12, 100, 250, 255])
                } else {
                    *ch.pick(&[8usize, 32, 64, 128, 160, 256])
                }
            });
            Truth::Word(u.to_string(), w)
        };
        truths.push(t);
    }
    // variables
    let mut class_of = vec![];
    let mut vars_of: Vec<Vec<usize>> = vec![vec![]; nclasses];
    for c in 0..nclasses {
        for _ in 0..ch.range(1, 4) {
            vars_of[c].push(class_of.len());
            class_of.push(c);
        }
    }
    let nvars = class_of.len();
    let mut js: Vec<(usize, J)> = vec![];
    // spanning trees
    for c in 0..nclasses {
        for i in 1..vars_of[c].len() {
            let parent = vars_of[c][ch.below(i)];
            let child = vars_of[c][i];
            if ch.chance(1, 2) {
                js.push((child, J::Equal(parent)));
            } else {
                js.push((parent, J::Equal(child)));
            }
        }
    }
    // evidence
    let contradict_class = if ch.chance(1, 2) { Some(ch.below(nclasses)) } else { None };
    let mut contradicted = None;
    for c in 0..nclasses {
        let n = ch.range(1, 4);
        let mut emitted_truth = false;
        for _ in 0..n {
            let v = *ch.pick(&vars_of[c]);
            let j = match &truths[c] {
                Truth::Word(u, w) => {
                    if ch.chance(1, 8) {
                        J::Any
                    } else {
                        // a usage below the truth
                        let lower: Vec<&str> = ["Bytes", "Numeric", "Unsigned", "Signed", "Bool", "Address", "Selector", "Function"]
                            .into_iter()
                            .filter(|x| usage_le(x, u))
                            .collect();
                        let u2 = *ch.pick(&lower);
                        let width = if fixed_width(u2).is_some() || ch.chance(1, 2) { Some(*w) } else { None };
                        if u2 == u && width == Some(*w) {
                            emitted_truth = true;
                        }
                        J::Word(width, u2.to_string())
                    }
                }
                Truth::Mapping(kc, vc) => {
                    if ch.chance(1, 6) {
                        J::Any
                    } else {
                        emitted_truth = true;
                        J::Mapping(*ch.pick(&vars_of[*kc]), *ch.pick(&vars_of[*vc]))
                    }
                }
                Truth::DynArray(ec) => {
                    if ch.chance(1, 6) {
                        J::Any
                    } else {
                        emitted_truth = true;
                        J::DynArray(*ch.pick(&vars_of[*ec]))
                    }
                }
                Truth::FixedArray(ec, n) => {
                    if ch.chance(1, 6) {
                        J::Any
                    } else {
                        emitted_truth = true;
                        J::FixedArray(*ch.pick(&vars_of[*ec]), *n)
                    }
                }
                Truth::DynBytes => {
                    if ch.chance(1, 6) {
                        J::Any
                    } else {
                        emitted_truth = true;
                        J::Bytes
                    }
                }
            };
            js.push((v, j));
        }
        if contradict_class == Some(c) {
            // make sure the truth itself is present, then inject one contradictory judgement
            let v = *ch.pick(&vars_of[c]);
            if !emitted_truth {
                let j = match &truths[c] {
                    Truth::Word(u, w) => J::Word(Some(*w), u.clone()),
                    Truth::Mapping(kc, vc) => J::Mapping(vars_of[*kc][0], vars_of[*vc][0]),
                    Truth::DynArray(ec) => J::DynArray(vars_of[*ec][0]),
                    Truth::FixedArray(ec, n) => J::FixedArray(vars_of[*ec][0], *n),
                    Truth::DynBytes => J::Bytes,
                };
                js.push((v, j));
            }
            let v2 = *ch.pick(&vars_of[c]);
            let other_var = ch.below(nvars);
            let (kind, j) = match &truths[c] {
                Truth::Word(u, w) => {
                    if ch.chance(1, 2) {
                        // a different width under a usage compatible with everything
                        let w2 = *[8usize, 16, 32, 64, 128, 160, 256].iter().filter(|x| **x != *w).nth(ch.below(6)).unwrap();
                        ("width", J::Word(Some(w2), "Bytes".to_string()))
                    } else {
                        let incompatible: Vec<&str> = ["Numeric", "Unsigned", "Signed", "Bool", "Address", "Selector", "Function"]
                            .into_iter()
                            .filter(|x| usage_join(x, u).is_none())
                            .collect();
                        if incompatible.is_empty() {
                            // the truth is `Bytes`, compatible with every usage: use a width clash instead
                            let w2 = *[8usize, 16, 32, 64, 128, 160, 256].iter().filter(|x| **x != *w).nth(ch.below(6)).unwrap();
                            ("width", J::Word(Some(w2), "Bytes".to_string()))
                        } else {
                            let u2 = *ch.pick(&incompatible);
                            let width = fixed_width(u2);
                            ("usage", J::Word(width, u2.to_string()))
                        }
                    }
                }
                Truth::Mapping(..) => {
                    if ch.chance(1, 3) {
                        ("mapping-vs-sized-word", J::Word(Some(256), (*ch.pick(&FREE[1..])).to_string()))
                    } else if ch.chance(1, 2) {
                        ("mapping-vs-array", J::DynArray(other_var))
                    } else {
                        ("mapping-vs-array", J::FixedArray(other_var, 3))
                    }
                }
                // a dynamic array's length (and dynamic bytes) cannot be signed: the unifier documents
                // this as a conflict
                Truth::DynArray(_) if ch.chance(1, 2) => ("signed-length", J::Word(*ch.pick(&[None, Some(256usize)]), "Signed".to_string())),
                Truth::DynBytes if ch.chance(1, 2) => ("signed-length", J::Word(*ch.pick(&[None, Some(256usize)]), "Signed".to_string())),
                Truth::DynBytes => ("mapping-vs-array", J::Mapping(other_var, ch.below(nvars))),
                // two fixed arrays of different lengths (C14: only arrays of equal length are joined), also
                // lengths that agree in their low 64 bits
                Truth::FixedArray(ec, n) if ch.chance(1, 2) => {
                    let n2 = *[2u64, 3, 10, 1000, 1001, 1002, 1003].iter().filter(|x| **x != *n).nth(ch.below(6)).unwrap();
                    ("array-length", J::FixedArray(*ch.pick(&vars_of[*ec]), n2))
                }
                Truth::DynArray(_) | Truth::FixedArray(..) => ("mapping-vs-array", J::Mapping(other_var, ch.below(nvars))),
            };
            js.push((v2, j));
            contradicted = Some((c, kind.to_string()));
        }
    }
    // shuffle the judgement list a little (order of registration should not matter)
    for i in (1..js.len()).rev() {
        let j = ch.below(i + 1);
        js.swap(i, j);
    }
    Case {
        set: JSet { nvars, js },
        class_of,
        truths,
        contradicted,
    }
}

pub fn check_case(c: &Case, acc: &mut Acc) -> CaseResult {
    let case = json!({ "case": c });
    let fail = |sig: String, detail: String| CaseResult::Fail(Violation::new(sig, detail, case.clone()));
    let nclasses = c.truths.len();
    let key = fnv64(format!("{:?}", c.set).as_bytes());
    for t in &c.truths {
        match t {
            Truth::Mapping(..) => acc.label("truth:mapping"),
            Truth::DynArray(_) => acc.label("truth:dyn-array"),
            Truth::FixedArray(..) => acc.label("truth:fixed-array"),
            Truth::DynBytes => acc.label("truth:dyn-bytes"),
            _ => {}
        }
    }
    match &c.contradicted {
        None => acc.label("consistent"),
        Some((_, k)) => acc.label(&format!("contradiction:{k}")),
    }
    // per class evidence
    let mut evidence: Vec<Vec<(usize, &J)>> = vec![vec![]; nclasses];
    for (v, j) in &c.set.js {
        if !matches!(j, J::Equal(_)) {
            evidence[c.class_of[*v]].push((*v, j));
        }
    }
    let rich = |cls: usize| {
        let vars: std::collections::BTreeSet<usize> = evidence[cls].iter().map(|(v, _)| *v).collect();
        evidence[cls].len() >= 3 && vars.len() >= 2
    };
    let nontrivial = match &c.contradicted {
        Some((cls, _)) => rich(*cls),
        None => (0..nclasses).any(rich),
    };
    acc.label_if(nontrivial, "class>=3-evidence-on>=2-vars");
    acc.mark(key, nontrivial);

    let mut b = build(&c.set, 200_000);
    let layout = match guard(|| b.checker.unify()) {
        Err(p) => return fail(format!("unification {}", p.signature()), p.msg),
        Ok(r) => r.ok(),
    };
    if b.wd.fired() {
        acc.excluded("excluded_c03_budget");
        return CaseResult::Pass;
    }
    let vars = b.vars.clone();
    let mut types = vec![];
    for (i, v) in vars.iter().enumerate() {
        match guard(|| b.checker.type_of(*v)) {
            Ok(Ok(t)) => types.push(t),
            Ok(Err(e)) => {
                return fail(
                    "a variable has no single type after unification (owned by C14)".into(),
                    format!("variable {i}: {:?}", e.payloads().first().map(|p| &p.payload)),
                )
            }
            Err(p) => return fail(format!("type_of {}", p.signature()), p.msg),
        }
    }
    // the reported layout keeps a resolved width: even-numbered variables are the storage slots 0, 2, 4..
    if let Some(layout) = &layout {
        for (i, t) in types.iter().enumerate() {
            let TE::Word { width: Some(w), .. } = t else { continue };
            if i % 2 != 0 {
                continue;
            }
            let rows: Vec<_> = layout
                .slots()
                .iter()
                .filter(|s| crate::subj::from_u256(s.index.0) == crate::refword::W::from_u64(i as u64))
                .collect();
            if let [row] = rows.as_slice() {
                acc.label("layout-width-compared");
                let reported = crate::props::c04::width_of(&row.typ);
                if row.offset == 0 && reported.is_some() && reported != Some(*w) {
                    return fail(
                        "the reported layout does not keep the resolved width of a word".into(),
                        format!("slot {i}: resolved {t:?}, reported {:?}", row.typ),
                    );
                }
            }
        }
    }
    let mut root = |i: usize| -> usize {
        let v = vars[i];
        unsafe { b.checker.state_mut().result().find(&v).index() }
    };
    for (i, cls) in c.class_of.iter().enumerate() {
        let got = &types[i];
        if let Some((cc, kind)) = &c.contradicted {
            if cc == cls {
                if !matches!(got, TE::Conflict { .. }) {
                    return fail(
                        format!("contradictory evidence ({kind}) resolves to {} instead of a conflict", te_kind(got)),
                        format!("variable {i} of class {cls}: {got:?}; evidence {:?}", evidence[*cls]),
                    );
                }
                continue;
            }
        }
        // consistent class: the reference join
        let ev: Vec<&J> = evidence[*cls].iter().map(|(_, j)| *j).filter(|j| !matches!(j, J::Any)).collect();
        if matches!(got, TE::Conflict { .. }) {
            // a class whose component class was contradicted stays consistent itself
            return fail(
                format!("mutually compatible evidence resolves to a conflict ({})", truth_kind(&c.truths[*cls])),
                format!("variable {i} of class {cls}: evidence {:?}: {got:?}", evidence[*cls]),
            );
        }
        if ev.is_empty() {
            if !matches!(got, TE::Any) {
                return fail("a class with no evidence does not resolve to Any".into(), format!("variable {i}: {got:?}"));
            }
            continue;
        }
        match &c.truths[*cls] {
            Truth::Word(..) => {
                let mut usage = "Bytes".to_string();
                let mut width = None;
                for j in &ev {
                    if let J::Word(w, u) = j {
                        usage = usage_join(&usage, u).expect("generator emits compatible usages");
                        if w.is_some() {
                            width = *w;
                        }
                    }
                }
                let raises = ev.iter().any(|j| matches!(j, J::Word(_, u) if *u != usage));
                let adds_width = width.is_some() && ev.iter().any(|j| matches!(j, J::Word(None, _)));
                acc.label_if(raises, "join-raises-usage");
                acc.label_if(adds_width, "join-adds-width");
                let want = TE::word(width, usage_of(&usage));
                if *got != want {
                    let what = match got {
                        TE::Word { width: gw, usage: gu } => {
                            if *gu != usage_of(&usage) {
                                format!("usage {gu:?} instead of {:?}", usage_of(&usage))
                            } else if gw.is_none() {
                                "the known width is lost".to_string()
                            } else {
                                "a different width".to_string()
                            }
                        }
                        other => format!("{} instead of a word", te_kind(other)),
                    };
                    return fail(
                        format!("compatible word evidence does not resolve to its most specific combination: {what}"),
                        format!("variable {i}: evidence {ev:?}: got {got:?}, reference join {want:?}"),
                    );
                }
            }
            Truth::Mapping(kc, vc) => match got {
                TE::Mapping { key, value } => {
                    let (k0, v0) = (first_var_of(&c.class_of, *kc), first_var_of(&c.class_of, *vc));
                    if root_of(&mut root, key.index(), &vars) != root(k0) || root_of(&mut root, value.index(), &vars) != root(v0) {
                        return fail(
                            "a mapping keeps its structure but its components are not unified with the evidence's components".into(),
                            format!("variable {i}: {got:?}"),
                        );
                    }
                }
                other => {
                    return fail(
                        format!("mapping evidence resolves to {}", te_kind(other)),
                        format!("variable {i}: evidence {ev:?}: {other:?}"),
                    )
                }
            },
            Truth::DynArray(ec) => match got {
                TE::DynamicArray { element } => {
                    let e0 = first_var_of(&c.class_of, *ec);
                    if root_of(&mut root, element.index(), &vars) != root(e0) {
                        return fail("a dynamic array's element is not unified with the evidence's element".into(), format!("variable {i}: {got:?}"));
                    }
                }
                other => return fail(format!("dynamic-array evidence resolves to {}", te_kind(other)), format!("variable {i}: {other:?}")),
            },
            Truth::DynBytes => {
                if !matches!(got, TE::Bytes) {
                    return fail(format!("dynamic-bytes evidence resolves to {}", te_kind(got)), format!("variable {i}: {got:?}"));
                }
            }
            Truth::FixedArray(ec, n) => match got {
                TE::FixedArray { element, length } if *length == crate::props::c14::fa_len(*n) => {
                    let e0 = first_var_of(&c.class_of, *ec);
                    if root_of(&mut root, element.index(), &vars) != root(e0) {
                        return fail("a fixed array's element is not unified with the evidence's element".into(), format!("variable {i}: {got:?}"));
                    }
                }
                other => return fail(format!("fixed-array evidence resolves to {}", te_kind(other)), format!("variable {i}: {other:?}")),
            },
        }
    }
    CaseResult::Pass
}

fn truth_kind(t: &Truth) -> &'static str {
    match t {
        Truth::Word(..) => "words",
        Truth::Mapping(..) => "mappings",
        Truth::DynArray(_) => "dynamic arrays",
        Truth::FixedArray(..) => "fixed arrays",
        Truth::DynBytes => "dynamic bytes",
    }
}

fn first_var_of(class_of: &[usize], cls: usize) -> usize {
    class_of.iter().position(|c| *c == cls).unwrap()
}

/// root of a type variable given by its raw index (it is one of ours: variables are registered first)
fn root_of(root: &mut impl FnMut(usize) -> usize, tv_index: usize, vars: &[storage_layout_extractor::tc::state::type_variable::TypeVariable]) -> usize {
    match vars.iter().position(|v| v.index() == tv_index) {
        Some(i) => root(i),
        None => usize::MAX,
    }
}

fn run_shard(ctx: &ShardCtx, acc: &mut Acc) {
    drive(ctx, "truth", ctx.tier.pick(120_000, 500_000), 500, acc, &|ch, acc| {
        let c = gen_case(ch);
        acc.sample(|| json!({ "truths": c.truths, "judgements": c.set.js, "contradicted": c.contradicted }));
        check_case(&c, acc)
    });
    let _ = (Tier::Quick, WordUse::Bytes);
}

/// the case a crashed shard was working on, rebuilt from its choices
fn describe(_stream: &str, choices: &[u32]) -> Value {
    let mut ch = Chooser::new(choices);
    json!({ "case": gen_case(&mut ch) })
}

fn replay(case: &Value, acc: &mut Acc) -> CaseResult {
    let c: Case = serde_json::from_value(case["case"].clone()).expect("replay case");
    check_case(&c, acc)
}

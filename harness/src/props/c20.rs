//! C20 — layouts survive a JSON round trip with exact 256-bit slot indices.

use crate::{
    core::{drive, fnv64, guard, Acc, CaseResult, Chooser, ShardCtx, Tier, Violation},
    props::PropDef,
    refword::W,
    subj::to_u256,
};
use serde_json::{json, Value};
use storage_layout_extractor::{
    layout::StorageSlot,
    tc::abi::{AbiType, StructElement},
    utility::U256Wrapper,
};

pub fn def() -> PropDef {
    PropDef {
        id: "C20",
        level: "exploration",
        rule: "StorageSlot values: AbiType trees of depth <= 5 over every variant (sizes None/0/1/8/160/256/usize::MAX/random, \
               conflicts with 0-3 payload strings incl. quotes, escapes and non-ASCII, structs with offsets, arrays with \
               256-bit lengths), plus single-constructor chains up to depth 24; index boundary-biased over all 256 bits; \
               offset 0..255. distinct = hash of the serialised entry; non-trivial = type depth >= 2 or index >= 2^64",
        assumptions: &[
            "serde_json is the JSON implementation (its recursion limit of 128 bounds the chain depth used)",
            "RefWord big-endian hex is the reference for the index encoding",
        ],
        run_shard,
        replay,
        describe: None,
        health,
        exhaustive: None,
    }
}

fn health(acc: &Acc, _t: Tier) -> Vec<String> {
    let mut need: Vec<(&str, u64)> = vec![
        ("index>=2^64", 500),
        ("index>=2^128", 300),
        ("index=2^256-1", 5),
        ("depth>=2", 1000),
        ("depth>=4", 100),
        ("chain", 20),
        ("conflict-empty-payload", 20),
        ("conflict-with-payload", 100),
        ("array-size>=2^128", 50),
    ];
    for v in VARIANTS {
        need.push((v, 30));
    }
    crate::props::require_labels(acc, &need)
}

const VARIANTS: [&str; 17] = [
    "v:any",
    "v:number",
    "v:u_int",
    "v:int",
    "v:address",
    "v:selector",
    "v:function",
    "v:bool",
    "v:array",
    "v:bytes",
    "v:bits",
    "v:dyn_array",
    "v:dyn_bytes",
    "v:mapping",
    "v:struct",
    "v:infinite_type",
    "v:conflicted_type",
];

fn gen_size(ch: &mut Chooser) -> Option<usize> {
    match ch.below(9) {
        0 | 1 => None,
        2 => Some(0),
        3 => Some(1),
        4 => Some(8),
        5 => Some(160),
        6 => Some(256),
        7 => Some(usize::MAX),
        _ => Some(ch.u64() as usize),
    }
}

fn gen_string(ch: &mut Chooser) -> String {
    const ALPHABET: [&str; 16] = [
        "a", "Z", "0", " ", "\"", "\\", "\n", "\t", "\u{0}", "\u{7f}", "é", "ß", "日", "😀", "{", "]",
    ];
    let n = ch.below(12);
    (0..n).map(|_| *ch.pick(&ALPHABET[..])).collect()
}

fn gen_strings(ch: &mut Chooser) -> Vec<String> {
    let n = ch.below(4);
    (0..n).map(|_| gen_string(ch)).collect()
}

pub fn gen_type(ch: &mut Chooser, depth: usize) -> AbiType {
    let leaf_only = depth == 0;
    let pick = if leaf_only { ch.below(13) } else { ch.below(17) };
    match pick {
        0 => AbiType::Any,
        1 => AbiType::Number { size: gen_size(ch) },
        2 => AbiType::UInt { size: gen_size(ch) },
        3 => AbiType::Int { size: gen_size(ch) },
        4 => AbiType::Address,
        5 => AbiType::Selector,
        6 => AbiType::Function,
        7 => AbiType::Bool,
        8 => AbiType::Bytes { length: gen_size(ch) },
        9 => AbiType::Bits { length: gen_size(ch) },
        10 => AbiType::DynBytes,
        11 => AbiType::InfiniteType,
        12 => AbiType::ConflictedType {
            conflicts: gen_strings(ch),
            reasons:   gen_strings(ch),
        },
        13 => AbiType::Array {
            size: U256Wrapper(to_u256(ch.word())),
            tp:   Box::new(gen_type(ch, depth - 1)),
        },
        14 => AbiType::DynArray {
            tp: Box::new(gen_type(ch, depth - 1)),
        },
        15 => AbiType::Mapping {
            key_type:   Box::new(gen_type(ch, depth - 1)),
            value_type: Box::new(gen_type(ch, depth - 1)),
        },
        _ => {
            let n = ch.below(4);
            AbiType::Struct {
                elements: (0..n)
                    .map(|_| {
                        let off = match ch.below(4) {
                            0 => 0,
                            1 => ch.below(256),
                            2 => usize::MAX,
                            _ => ch.below(100_000),
                        };
                        StructElement::new(off, gen_type(ch, depth - 1))
                    })
                    .collect(),
            }
        }
    }
}

fn gen_chain(ch: &mut Chooser) -> AbiType {
    let depth = ch.range(6, 24);
    let mut t = gen_type(ch, 0);
    for _ in 0..depth {
        t = match ch.below(3) {
            0 => AbiType::DynArray { tp: Box::new(t) },
            1 => AbiType::Mapping {
                key_type:   Box::new(gen_type(ch, 0)),
                value_type: Box::new(t),
            },
            _ => AbiType::Array {
                size: U256Wrapper(to_u256(ch.word())),
                tp:   Box::new(t),
            },
        };
    }
    t
}

fn type_depth(t: &AbiType) -> usize {
    1 + match t {
        AbiType::Array { tp, .. } | AbiType::DynArray { tp } => type_depth(tp),
        AbiType::Mapping { key_type, value_type } => type_depth(key_type).max(type_depth(value_type)),
        AbiType::Struct { elements } => elements.iter().map(|e| type_depth(&e.typ)).max().unwrap_or(0),
        _ => 0,
    }
}

fn label_type(t: &AbiType, acc: &mut Acc) {
    let name = match t {
        AbiType::Any => "v:any",
        AbiType::Number { .. } => "v:number",
        AbiType::UInt { .. } => "v:u_int",
        AbiType::Int { .. } => "v:int",
        AbiType::Address => "v:address",
        AbiType::Selector => "v:selector",
        AbiType::Function => "v:function",
        AbiType::Bool => "v:bool",
        AbiType::Array { size, tp } => {
            if size.0 >= ethnum::U256::ONE << 128 {
                acc.label("array-size>=2^128");
            }
            label_type(tp, acc);
            "v:array"
        }
        AbiType::Bytes { .. } => "v:bytes",
        AbiType::Bits { .. } => "v:bits",
        AbiType::DynArray { tp } => {
            label_type(tp, acc);
            "v:dyn_array"
        }
        AbiType::DynBytes => "v:dyn_bytes",
        AbiType::Mapping { key_type, value_type } => {
            label_type(key_type, acc);
            label_type(value_type, acc);
            "v:mapping"
        }
        AbiType::Struct { elements } => {
            for e in elements {
                label_type(&e.typ, acc);
            }
            "v:struct"
        }
        AbiType::InfiniteType => "v:infinite_type",
        AbiType::ConflictedType { conflicts, reasons } => {
            if conflicts.is_empty() || reasons.is_empty() {
                acc.label("conflict-empty-payload");
            }
            if !conflicts.is_empty() || !reasons.is_empty() {
                acc.label("conflict-with-payload");
            }
            "v:conflicted_type"
        }
    };
    acc.label(name);
}

/// all "size" fields of arrays, in serialisation order
fn array_sizes(t: &AbiType, out: &mut Vec<W>) {
    match t {
        AbiType::Array { size, tp } => {
            out.push(crate::subj::from_u256(size.0));
            array_sizes(tp, out);
        }
        AbiType::DynArray { tp } => array_sizes(tp, out),
        AbiType::Mapping { key_type, value_type } => {
            array_sizes(key_type, out);
            array_sizes(value_type, out);
        }
        AbiType::Struct { elements } => elements.iter().for_each(|e| array_sizes(&e.typ, out)),
        _ => {}
    }
}

fn json_array_sizes(v: &Value, out: &mut Vec<String>) {
    match v {
        Value::Object(m) => {
            if let Some(Value::Object(arr)) = m.get("array") {
                if let Some(Value::String(s)) = arr.get("size") {
                    out.push(s.clone());
                }
            }
            // serde_json's map is sorted by key unless preserve_order; walk in a fixed order that
            // matches the serialisation order of each variant
            for key in ["array", "dyn_array", "mapping", "struct", "type", "key_type", "value_type", "elements"] {
                if let Some(x) = m.get(key) {
                    json_array_sizes(x, out);
                }
            }
        }
        Value::Array(a) => a.iter().for_each(|x| json_array_sizes(x, out)),
        _ => {}
    }
}

fn is_hex_word(s: &str) -> bool {
    s.len() == 66 && s.starts_with("0x") && s[2..].bytes().all(|b| matches!(b, b'0'..=b'9' | b'a'..=b'f'))
}

pub fn check_slot(index: W, offset: usize, typ: &AbiType, choices: &[u32], acc: &mut Acc) -> CaseResult {
    let slot = StorageSlot::new(U256Wrapper(to_u256(index)), offset, typ.clone());
    let depth = type_depth(typ);
    label_type(typ, acc);
    acc.label_if(index.bits() > 64, "index>=2^64");
    acc.label_if(index.bits() > 128, "index>=2^128");
    acc.label_if(index == W::MAX, "index=2^256-1");
    acc.label_if(depth >= 2, "depth>=2");
    acc.label_if(depth >= 4, "depth>=4");
    acc.max("max_type_depth", depth as u64);
    let fail = |sig: &str, detail: String, text: &str| {
        CaseResult::Fail(Violation::new(
            sig,
            detail,
            json!({ "index": index, "offset": offset, "type_debug": format!("{typ:?}"), "json": text, "choices": choices }),
        ))
    };
    let text = match guard(|| serde_json::to_string(&slot)) {
        Ok(Ok(t)) => t,
        Ok(Err(e)) => return fail("serialisation failed", format!("{e}"), ""),
        Err(p) => return fail(&format!("serialisation {}", p.signature()), p.msg, ""),
    };
    acc.mark(fnv64(text.as_bytes()), depth >= 2 || index.bits() > 64);
    // the index field
    let parsed: Value = match serde_json::from_str(&text) {
        Ok(v) => v,
        Err(e) => return fail("serialised entry is not valid JSON", format!("{e}"), &text),
    };
    let idx = parsed["index"].as_str().unwrap_or("");
    if !is_hex_word(idx) {
        return fail(
            "index is not a 0x-prefixed 64-digit lower-case hex word",
            format!("index field = {idx:?}"),
            &text,
        );
    }
    if idx[2..] != index.hex64() {
        return fail(
            "index field does not spell the slot index big-endian",
            format!("index field = {idx}, expected 0x{}", index.hex64()),
            &text,
        );
    }
    if parsed["offset"].as_u64() != Some(offset as u64) {
        return fail("offset field differs", format!("offset field = {}", parsed["offset"]), &text);
    }
    if parsed.get("type").is_none() || parsed.as_object().map(|o| o.len()) != Some(3) {
        return fail("entry does not have exactly the fields index/offset/type", text.clone(), &text);
    }
    // array lengths are 256-bit words too
    let mut want_sizes = vec![];
    array_sizes(typ, &mut want_sizes);
    let mut got_sizes = vec![];
    json_array_sizes(&parsed["type"], &mut got_sizes);
    let mut w: Vec<String> = want_sizes.iter().map(|w| format!("0x{}", w.hex64())).collect();
    w.sort();
    got_sizes.sort();
    if w != got_sizes {
        return fail(
            "array length is not written as the exact 64-digit hex word",
            format!("expected lengths {w:?}, found {got_sizes:?}"),
            &text,
        );
    }
    // round trip
    let back: StorageSlot = match guard(|| serde_json::from_str::<StorageSlot>(&text)) {
        Ok(Ok(b)) => b,
        Ok(Err(e)) => return fail("serialised entry does not deserialise", format!("{e}"), &text),
        Err(p) => return fail(&format!("deserialisation {}", p.signature()), p.msg, &text),
    };
    if back != slot {
        let what = if back.index != slot.index {
            "index changes in the round trip"
        } else if back.offset != slot.offset {
            "offset changes in the round trip"
        } else {
            "type changes in the round trip"
        };
        return fail(what, format!("read back {back:?}"), &text);
    }
    // the same JSON read from sources that cannot lend their text: a reader and a parsed value
    for (route, r) in [
        ("from_reader", guard(|| serde_json::from_reader::<_, StorageSlot>(text.as_bytes()).map_err(|e| e.to_string()))),
        ("from_value", guard(|| serde_json::from_value::<StorageSlot>(parsed.clone()).map_err(|e| e.to_string()))),
        ("from_slice", guard(|| serde_json::from_slice::<StorageSlot>(text.as_bytes()).map_err(|e| e.to_string()))),
    ] {
        match r {
            Ok(Ok(b)) if b == slot => {}
            Ok(Ok(b)) => return fail(&format!("entry read back through {route} differs"), format!("read back {b:?}"), &text),
            Ok(Err(e)) => return fail(&format!("serialised entry does not deserialise through {route}"), e, &text),
            Err(p) => return fail(&format!("deserialisation ({route}) {}", p.signature()), p.msg, &text),
        }
    }
    // equality ignores conflict payloads, so compare the re-serialisation as text too
    match serde_json::to_string(&back) {
        Ok(t2) if t2 == text => CaseResult::Pass,
        Ok(t2) => fail(
            "re-serialising the read-back entry gives different JSON (payload lost or changed)",
            format!("second serialisation: {t2}"),
            &text,
        ),
        Err(e) => fail("re-serialisation failed", format!("{e}"), &text),
    }
}

fn run_shard(ctx: &ShardCtx, acc: &mut Acc) {
    // every boundary index once, with a small type (deterministic part)
    if ctx.shard == 0 {
        for w in crate::refword::boundary_words() {
            acc.case();
            let t = AbiType::Mapping {
                key_type:   Box::new(AbiType::Address),
                value_type: Box::new(AbiType::UInt { size: Some(256) }),
            };
            if let CaseResult::Fail(v) = check_slot(w, (w.low_u64() % 256) as usize, &t, &[], acc) {
                if ctx.known.lookup(ctx.prop, &v.signature).is_none()
                    && !acc.violations.iter().any(|x| x.signature == v.signature)
                {
                    acc.violations.push(v);
                }
            }
        }
    }
    drive(ctx, "slots", ctx.tier.pick(36_000, 250_000), 600, acc, &|ch, acc| {
        let raw = ch.raw();
        let (index, offset, typ) = gen_case(ch, acc);
        acc.sample(|| {
            json!(serde_json::to_string(&StorageSlot::new(U256Wrapper(to_u256(index)), offset, typ.clone())).unwrap_or_default())
        });
        check_slot(index, offset, &typ, raw, acc)
    });
}

fn gen_case(ch: &mut Chooser, acc: &mut Acc) -> (W, usize, AbiType) {
    let index = ch.word();
    let offset = ch.below(256);
    let typ = if ch.chance(1, 12) {
        acc.label("chain");
        gen_chain(ch)
    } else {
        let d = ch.below(6);
        gen_type(ch, d)
    };
    (index, offset, typ)
}

fn replay(case: &Value, acc: &mut Acc) -> CaseResult {
    let index: W = serde_json::from_value(case["index"].clone()).expect("replay case: index");
    let offset = case["offset"].as_u64().expect("replay case: offset") as usize;
    let choices: Vec<u32> = serde_json::from_value(case["choices"].clone()).unwrap_or_default();
    if !choices.is_empty() {
        // generator-defined case: rebuild it from its choice stream
        let mut ch = Chooser::new(&choices);
        let (i, o, t) = gen_case(&mut ch, acc);
        return check_slot(i, o, &t, &choices, acc);
    }
    // deterministic-part cases carry a fixed type
    let t = AbiType::Mapping {
        key_type:   Box::new(AbiType::Address),
        value_type: Box::new(AbiType::UInt { size: Some(256) }),
    };
    check_slot(index, offset, &t, &[], acc)
}

//! C18 — symbolic values stay within the size limit and report their true size.

use crate::{
    asm,
    core::{drive, fnv64, guard, Acc, CaseResult, Chooser, ShardCtx, Tier, Violation},
    eval::count_nodes,
    gen::{self, g_loop, g_struct},
    props::PropDef,
    refword::W,
    subj::{self, CountingWatchdog, VmCfg},
};
use serde_json::{json, Value};
use std::collections::HashSet;
use storage_layout_extractor::{
    tc::state::TypeCheckerState,
    vm::value::{Provenance, RuntimeBoxedVal, RSVD},
};

pub fn def() -> PropDef {
    PropDef {
        id: "C18",
        level: "exploration",
        rule: "loop programs that square / add / hash a running value, stack-aware programs over the whole opcode table, and a \
               directed family (build a value one node over the limit, then apply j further operations) x value-size limit 1..1000. \
               Oracle, for every value in every stored state (stack, memory, storage, recorded, logged) and every sub-node: size() \
               equals the recursive node count through children(); every instruction result has at most `limit` nodes; the same \
               size()==count check after constant_fold() and after the default lifting passes; in the directed family the value \
               derived from a culled value is a real tree over the culled leaf (not culled again before it grows past the limit). \
               distinct = hash of (bytecode, limit); non-trivial = at least one value was culled during the run",
        assumptions: &[
            "StorageWrite, UnwrittenStorageValue and Concat wrappers are synthetic (built without a limit, at most twice the limit plus one) and are not counted as instruction results; SLoad results are (they were exempt until the SLOAD doubling defect was found and repaired)",
        ],
        run_shard,
        replay,
        describe: None,
        health,
        exhaustive: None,
    }
}

fn health(acc: &Acc, _t: Tier) -> Vec<String> {
    crate::props::require_labels(
        acc,
        &[
            ("culled", 1000),
            ("directed", 300),
            ("limit=1", 20),
            ("limit<=3", 100),
            ("limit>=250", 200),
            ("derived-from-culled", 300),
        ],
    )
}

#[derive(Clone, Debug)]
pub struct Case {
    pub bytes: Vec<u8>,
    pub limit: usize,
    pub kind:  String,
    /// directed family: number of nodes the final stack top must have (None: not checked)
    pub expect_top_nodes: Option<usize>,
}

fn case_json(c: &Case) -> Value {
    json!({ "bytes": hex::encode(&c.bytes), "value_size_limit": c.limit, "kind": c.kind, "expect_top_nodes": c.expect_top_nodes })
}

/// Build `CALLVALUE (DUP1 ADD)^k`: a comb of k ADDs over 2k+1... no: a *chain* `x + c` keeps sizes
/// predictable: start with CALLVALUE (1 node), each `PUSH c; ADD` adds 2 nodes.
fn directed(ch: &mut Chooser) -> Case {
    let limit = *ch.pick(&[3usize, 4, 5, 7, 9, 10, 15, 25, 51, 101, 250]);
    let mut b = gen::B::new();
    b.emit(asm::CALLVALUE);
    // after m steps the value has 1 + 2m nodes; it is culled when 1 + 2m > limit
    let steps_to_cull = limit / 2 + 1; // smallest m with 1 + 2m > limit  (limit odd: (limit+1)/2 ; even: limit/2 + ... )
    let m = {
        let mut m = 0;
        while 1 + 2 * m <= limit {
            m += 1;
        }
        m
    };
    let _ = steps_to_cull;
    for i in 0..m {
        b.push(W::from_u64(i as u64 + 1));
        b.emit(asm::ADD);
    }
    // now the top is a culled leaf (1 node). Apply j more steps, staying within the limit:
    let max_j = (limit - 1) / 2; // 1 + 2j <= limit
    let j = if max_j == 0 { 0 } else { ch.range(1, max_j) };
    for i in 0..j {
        b.push(W::from_u64(100 + i as u64));
        b.emit(*ch.pick(&[asm::ADD, asm::MUL, 0x18, asm::SUB]));
    }
    b.emit(asm::STOP);
    Case {
        bytes: b.code(),
        limit,
        kind: "directed".into(),
        expect_top_nodes: Some(1 + 2 * j),
    }
}

/// one instruction (or short group) applied again and again to its own result: loads of loads, hashes of
/// hashes, queries of queries; short enough to stay cheap
fn chain(ch: &mut Chooser) -> Case {
    let source: &[u8] = *ch.pick(&[&[0x33u8][..], &[0x34], &[0x5f, 0x35], &[0x5f, 0x54], &[0x60, 0x07]]);
    let unit: &[u8] = *ch.pick(&[
        &[0x54u8][..],       // SLOAD
        &[0x51],             // MLOAD
        &[0x35],             // CALLDATALOAD
        &[0x31],             // BALANCE
        &[0x3b],             // EXTCODESIZE
        &[0x3f],             // EXTCODEHASH
        &[0x40],             // BLOCKHASH
        &[0x15],             // ISZERO
        &[0x80, 0x54, 0x01], // DUP1 SLOAD ADD
        &[0x80, 0x55, 0x5f, 0x54], // DUP1 SSTORE PUSH0 SLOAD (store under itself, load slot 0)
        &[0x5f, 0x52, 0x60, 0x20, 0x5f, 0x20], // PUSH0 MSTORE PUSH1 32 PUSH0 SHA3
        &[0x5f, 0x52, 0x5f, 0x51, 0x54],       // PUSH0 MSTORE PUSH0 MLOAD SLOAD
    ]);
    let n = *ch.pick(&[3usize, 8, 12, 20, 40, 64, 130, 300]);
    let mut code = source.to_vec();
    for _ in 0..n {
        code.extend_from_slice(unit);
    }
    code.extend_from_slice(*ch.pick(&[&[0x5fu8, 0x55, 0x00][..], &[0x5f, 0x52, 0x00], &[0x50, 0x00], &[0x00]]));
    Case {
        bytes: code,
        limit: *ch.pick(&[1usize, 2, 3, 5, 8, 13, 30, 100, 250, 1000]),
        kind: "chain".into(),
        expect_top_nodes: None,
    }
}

pub fn gen_case(ch: &mut Chooser) -> Case {
    match ch.below(11) {
        10 => chain(ch),
        0..=2 => directed(ch),
        3..=6 => {
            let l = g_loop(ch);
            Case {
                bytes: l.b.code(),
                limit: *ch.pick(&[1usize, 2, 3, 5, 8, 13, 30, 100, 250, 1000]),
                kind: format!("loop:{}", l.shape),
                expect_top_nodes: None,
            }
        }
        _ => Case {
            bytes: g_struct(ch, 60).code(),
            limit: *ch.pick(&[1usize, 2, 3, 5, 8, 13, 30, 100, 250, 1000]),
            kind: "struct".into(),
            expect_top_nodes: None,
        },
    }
}

fn is_wrapper(v: &RuntimeBoxedVal) -> bool {
    matches!(
        v.data(),
        RSVD::StorageWrite { .. } | RSVD::UnwrittenStorageValue { .. } | RSVD::Concat { .. }
    )
}

/// walk a value; returns Some((what, detail)) on the first problem
fn audit(v: &RuntimeBoxedVal, limit: Option<usize>, seen: &mut HashSet<usize>, culled: &mut u64, stage: &str) -> Option<(String, String)> {
    if !seen.insert(crate::eval::arc_ptr(v)) {
        return None;
    }
    let n = count_nodes(v);
    if v.size() != n {
        let culled_leaf = matches!(v.data(), RSVD::Value { .. }) && v.provenance() == Provenance::Execution;
        return Some((
            format!(
                "size() differs from the node count {stage}{}",
                if culled_leaf { " (a culled value keeps the size of the tree it replaced)" } else { "" }
            ),
            format!("size() = {}, nodes = {n}, value = {v}", v.size()),
        ));
    }
    if matches!(v.data(), RSVD::Value { .. }) && v.provenance() == Provenance::Execution {
        *culled += 1;
    }
    if let Some(l) = limit {
        if !is_wrapper(v) && n > l {
            return Some((
                "an instruction result has more nodes than the value size limit".into(),
                format!("{n} nodes > limit {l}: {v}"),
            ));
        }
    }
    for c in v.children() {
        if let Some(p) = audit(&c, limit, seen, culled, stage) {
            return Some(p);
        }
    }
    None
}

pub fn check_case(c: &Case, acc: &mut Acc) -> CaseResult {
    let fail = |sig: String, detail: String| CaseResult::Fail(Violation::new(sig, detail, case_json(c)));
    let cfg = VmCfg {
        value_size: c.limit,
        ..VmCfg::default()
    };
    acc.label_if(c.kind == "directed", "directed");
    acc.label_if(c.limit == 1, "limit=1");
    acc.label_if(c.limit <= 3, "limit<=3");
    acc.label_if(c.limit >= 250, "limit>=250");
    let wd = CountingWatchdog::budget(3_000_000);
    let run = match guard(|| subj::run_vm(&c.bytes, &cfg, subj::dyn_wd(&wd))) {
        Err(p) => {
            acc.excluded("excluded_c01_panic");
            acc.note(format!("subject panicked (owned by C01): {}", p.signature()));
            return CaseResult::Pass;
        }
        Ok(Err(e)) => return fail("the VM could not be set up for a generated program".into(), e),
        Ok(Ok(r)) => r,
    };
    if wd.fired() {
        acc.excluded("excluded_c03_budget");
        return CaseResult::Pass;
    }
    let mut key = c.bytes.clone();
    key.extend_from_slice(&c.limit.to_le_bytes());
    let mut culled = 0u64;
    let mut seen = HashSet::new();
    let mut all: Vec<RuntimeBoxedVal> = vec![];
    for s in &run.states {
        all.extend(s.clone().all_values());
    }
    acc.max("max_values_in_a_run", all.len() as u64);
    for v in &all {
        if let Some((sig, d)) = audit(v, Some(c.limit), &mut seen, &mut culled, "after execution") {
            acc.mark(fnv64(&key), true);
            return fail(sig, d);
        }
    }
    acc.label_if(culled > 0, "culled");
    acc.mark(fnv64(&key), culled > 0);
    // directed: the final stack top must be a real tree over the culled leaf
    if let Some(want) = c.expect_top_nodes {
        if let Some(top) = run.states.first().and_then(|s| s.stack().clone().all_values().last().cloned()) {
            acc.label("derived-from-culled");
            let n = count_nodes(&top);
            if n != want {
                return fail(
                    "a value derived from a culled value is culled again although it is within the limit".into(),
                    format!("limit {}: expected a tree of {want} nodes over the culled leaf, found {n} nodes: {top}", c.limit),
                );
            }
        }
    }
    // after folding and after lifting: sizes must still be true
    let mut seen2 = HashSet::new();
    let mut dummy = 0u64;
    let state = TypeCheckerState::empty();
    let mut passes = subj::tc_config(true).lifting_passes;
    // transformed values are kept alive until the end: the seen-set is keyed by address
    let mut keep: Vec<RuntimeBoxedVal> = vec![];
    for v in all.iter().take(400) {
        let folded = match guard(|| v.constant_fold()) {
            Ok(f) => f,
            Err(p) => {
                acc.excluded("excluded_c01_panic");
                acc.note(format!("constant_fold panicked (owned by C01/C09): {}", p.signature()));
                continue;
            }
        };
        if let Some((sig, d)) = audit(&folded, None, &mut seen2, &mut dummy, "after constant folding") {
            return fail(sig, d);
        }
        keep.push(folded);
        let lifted = match guard(|| passes.run(v.clone(), &state)) {
            Ok(Ok(l)) => l,
            Ok(Err(_)) => continue,
            Err(p) => {
                acc.excluded("excluded_c01_panic");
                acc.note(format!("lifting panicked (owned by C01): {}", p.signature()));
                continue;
            }
        };
        if let Some((sig, d)) = audit(&lifted, None, &mut seen2, &mut dummy, "after lifting") {
            return fail(sig, d);
        }
        keep.push(lifted);
    }
    CaseResult::Pass
}

fn run_shard(ctx: &ShardCtx, acc: &mut Acc) {
    drive(ctx, "sizes", ctx.tier.pick(20_000, 200_000), 500, acc, &|ch, acc| {
        let c = gen_case(ch);
        acc.sample(|| case_json(&c));
        check_case(&c, acc)
    });
    let _ = Tier::Quick;
}

fn replay(case: &Value, acc: &mut Acc) -> CaseResult {
    let c = Case {
        bytes: hex::decode(case["bytes"].as_str().expect("replay case: bytes")).expect("replay case: hex"),
        limit: case["value_size_limit"].as_u64().expect("replay case: limit") as usize,
        kind:  case["kind"].as_str().unwrap_or("replay").to_string(),
        expect_top_nodes: case["expect_top_nodes"].as_u64().map(|x| x as usize),
    };
    check_case(&c, acc)
}

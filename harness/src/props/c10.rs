//! C10 — disassembly is total, lossless and keeps byte offsets.

use crate::{
    core::{drive, fnv64, guard, Acc, CaseResult, Chooser, ShardCtx, Tier, Violation, SHARDS},
    corpus,
    decode::{assigned, classify, push_len, Kind},
    props::PropDef,
    refword::W,
    subj::from_kw,
};
use serde_json::{json, Value};
use storage_layout_extractor::{
    disassembly::InstructionStream,
    opcode::{
        control::{Invalid, JumpDest},
        memory::PushN,
    },
};

pub fn def() -> PropDef {
    PropDef {
        id: "C10",
        level: "exploration",
        rule: "byte strings: exhaustively all of length 1 and 2, every opcode byte x every truncation of its immediate, \
               every PUSHn with immediates made of 0x5b/0x60..0x7f bytes, every truncation of the real-contract corpus \
               within 40 bytes of a PUSH start (thorough; quick: a deterministic 1/8 sample per shard covers all), and \
               random strings up to 24576 bytes (push-heavy mix). distinct = hash of the string; non-trivial = the string \
               contains a PUSH that has at least one immediate byte present",
        assumptions: &[
            "reference decoder: walk the bytes, a byte 0x60..0x7f starts a PUSH whose next n bytes are data",
            "opcode table of the Shanghai fork decides which bytes are unassigned",
        ],
        run_shard,
        replay,
        describe: None,
        health,
        exhaustive: Some(true),
    }
}

fn health(acc: &Acc, _t: Tier) -> Vec<String> {
    crate::props::require_labels(
        acc,
        &[
            ("len1", 256),
            ("len2", 65536),
            ("truncated-push", 500),
            ("bare-trailing-push", 32),
            ("jumpdest-byte-in-push-data", 500),
            ("unassigned-byte-at-start", 500),
            ("corpus-truncation", 100),
            ("random-long", 20),
        ],
    )
}

fn case_json(bytes: &[u8]) -> Value {
    json!({ "bytes": hex::encode(bytes) })
}

/// The oracle. Returns the first discrepancy.
pub fn check_bytes(bytes: &[u8], acc: &mut Acc) -> CaseResult {
    let kinds = classify(bytes);
    let has_push_with_data = kinds.iter().any(|k| matches!(k, Kind::PushData(_)));
    acc.mark(fnv64(bytes), has_push_with_data);
    // classification labels
    let mut truncated_by = None;
    if let Some(last_start) = kinds.iter().rposition(|k| *k == Kind::Start) {
        let n = push_len(bytes[last_start]);
        let have = bytes.len() - last_start - 1;
        if n > have {
            truncated_by = Some(n - have);
            acc.label("truncated-push");
            if have == 0 {
                acc.label("bare-trailing-push");
            }
        }
    }
    if kinds
        .iter()
        .enumerate()
        .any(|(i, k)| matches!(k, Kind::PushData(_)) && bytes[i] == 0x5b)
    {
        acc.label("jumpdest-byte-in-push-data");
    }
    if kinds
        .iter()
        .enumerate()
        .any(|(i, k)| *k == Kind::Start && !assigned(bytes[i]))
    {
        acc.label("unassigned-byte-at-start");
    }
    let class = match truncated_by {
        Some(k) if k == push_len(bytes[kinds.iter().rposition(|k| *k == Kind::Start).unwrap()]) => "push truncated by all of its immediate",
        Some(_) => "push truncated by part of its immediate",
        None => "complete code",
    };

    let fail = |sig: String, detail: String| CaseResult::Fail(Violation::new(sig, detail, case_json(bytes)));

    let stream = match guard(|| InstructionStream::try_from(bytes)) {
        Err(p) => return fail(format!("disassembly {} ({class})", p.signature()), p.msg.clone()),
        Ok(Err(e)) => {
            let kind = format!("{:?}", e.payload);
            let kind = kind.split(|c| c == '(' || c == '{' || c == ' ').next().unwrap_or("").to_string();
            return fail(
                format!("disassembly rejected with {kind} ({class})"),
                format!("InstructionStream::try_from returned Err({:?}) at {}", e.payload, e.location),
            );
        }
        Ok(Ok(s)) => s,
    };
    if stream.len() != bytes.len() {
        return fail(
            format!("stream length differs from byte length ({class})"),
            format!("len() = {} for {} bytes", stream.len(), bytes.len()),
        );
    }
    match guard(|| stream.as_bytecode()) {
        Err(p) => return fail(format!("as_bytecode {} ({class})", p.signature()), p.msg),
        Ok(b) => {
            if b != bytes {
                return fail(
                    format!("re-encoding differs from the input ({class})"),
                    format!("as_bytecode() = {}", hex::encode(&b)),
                );
            }
        }
    }
    // the other two public routes: conversion of the stream into bytes, and the hex-string entry
    match guard(|| Vec::<u8>::from(stream.clone())) {
        Err(p) => return fail(format!("Vec<u8>::from(stream) {} ({class})", p.signature()), p.msg),
        Ok(b) if b != bytes => {
            return fail(
                format!("re-encoding differs from the input ({class})"),
                format!("Vec<u8>::from(stream) = {}", hex::encode(&b)),
            )
        }
        Ok(_) => {}
    }
    if bytes.len() <= 2_048 {
        let text = hex::encode(bytes);
        match guard(|| InstructionStream::try_from(text.as_str())) {
            Err(p) => return fail(format!("disassembly of the hex string {} ({class})", p.signature()), p.msg),
            Ok(Err(e)) => {
                return fail(
                    format!("disassembly of the hex string rejected ({class})"),
                    format!("InstructionStream::try_from(&str) returned Err({:?}) at {}", e.payload, e.location),
                )
            }
            Ok(Ok(s2)) => {
                if s2.as_bytecode() != bytes {
                    return fail(
                        format!("hex-string entry decodes to a different stream ({class})"),
                        format!("as_bytecode() = {}", hex::encode(s2.as_bytecode())),
                    );
                }
            }
        }
        acc.label("hex-entry");
        // malformed text is an input error, reported as a value: an odd length, or one bad character
        let bad = if bytes.len() % 2 == 0 { format!("{text}0") } else { format!("{}g{}", &text[..1], &text[2..]) };
        match guard(|| InstructionStream::try_from(bad.as_str())) {
            Err(p) => return fail(format!("malformed hex text: {}", p.signature()), p.msg),
            Ok(Ok(_)) => return fail("malformed hex text is accepted".into(), bad),
            Ok(Err(_)) => {}
        }
    }
    let thread = match stream.new_thread(0) {
        Ok(t) => t,
        Err(e) => return fail("new_thread(0) failed on a non-empty stream".into(), format!("{e:?}")),
    };
    for (i, k) in kinds.iter().enumerate() {
        let Some(op) = thread.instruction(i as u32) else {
            return fail(format!("no stream entry at a byte offset ({class})"), format!("offset {i}"));
        };
        let any = op.as_ref().as_any();
        match k {
            Kind::PushData(_) => {
                if any.is::<JumpDest>() {
                    return fail(
                        format!("push data decoded as JUMPDEST ({class})"),
                        format!("offset {i} is push data but holds JumpDest"),
                    );
                }
            }
            Kind::Start => {
                let b = bytes[i];
                if any.is::<JumpDest>() != (b == 0x5b) {
                    return fail(
                        format!("JUMPDEST-ness wrong at an instruction boundary ({class})"),
                        format!("offset {i} byte {b:#04x} is_jumpdest={}", any.is::<JumpDest>()),
                    );
                }
                if !assigned(b) {
                    match any.downcast_ref::<Invalid>() {
                        Some(inv) if inv.byte == b => {}
                        other => {
                            return fail(
                                "unassigned byte does not behave as INVALID".into(),
                                format!("offset {i} byte {b:#04x} decoded as {other:?} / {op:?}"),
                            )
                        }
                    }
                }
                match guard(|| op.as_byte()) {
                    Ok(x) if x == b => {}
                    Ok(x) => {
                        return fail(
                            format!("instruction at an offset reports a different opcode byte ({class})"),
                            format!("offset {i}: byte {b:#04x}, as_byte() {x:#04x}"),
                        )
                    }
                    Err(p) => {
                        return fail(
                            format!("instruction boundary holds a non-instruction entry ({class})"),
                            format!("offset {i}: as_byte() panicked: {}", p.msg),
                        )
                    }
                }
                // a complete PUSH carries exactly its immediate, big-endian
                let n = push_len(b);
                if n > 0 && i + 1 + n <= bytes.len() {
                    match any.downcast_ref::<PushN>() {
                        Some(p) => {
                            let expect = W::from_be_slice(&bytes[i + 1..i + 1 + n]);
                            let got = from_kw(&p.bytes_as_word());
                            if got != expect || p.byte_size() as usize != n {
                                return fail(
                                    "complete PUSH decodes to a different immediate".into(),
                                    format!("offset {i}: expected {expect}, got {got} (size {})", p.byte_size()),
                                );
                            }
                        }
                        None => {
                            return fail(
                                "complete PUSH is not decoded as a push instruction".into(),
                                format!("offset {i}: {op:?}"),
                            )
                        }
                    }
                }
            }
        }
    }
    CaseResult::Pass
}

fn random_bytes(ch: &mut Chooser) -> Vec<u8> {
    let len = match ch.below(20) {
        0 => ch.range(300, 24_576),
        1..=4 => ch.range(40, 300),
        _ => ch.range(1, 40),
    };
    let mut out = Vec::with_capacity(len);
    let flavour = ch.below(3);
    // long strings are expanded deterministically from one generated 64-bit value
    let mut expand: Option<u64> = if len > 200 { Some(ch.u64()) } else { None };
    while out.len() < len {
        let r = match &mut expand {
            Some(state) => {
                *state = state.wrapping_add(0x9e3779b97f4a7c15);
                let mut z = *state;
                z = (z ^ (z >> 30)).wrapping_mul(0xbf58476d1ce4e5b9);
                z = (z ^ (z >> 27)).wrapping_mul(0x94d049bb133111eb);
                (z ^ (z >> 31)) as u32
            }
            None => ch.next(),
        };
        let b = match flavour {
            0 => r as u8,
            1 => {
                // push-heavy
                match r % 4 {
                    0 => 0x60 + ((r >> 8) % 32) as u8,
                    1 => 0x5b,
                    _ => (r >> 16) as u8,
                }
            }
            _ => {
                // mostly assigned opcodes
                let x = (r >> 8) as u8;
                if assigned(x) || r % 5 == 0 {
                    x
                } else {
                    0x5b
                }
            }
        };
        out.push(b);
    }
    // often end on a PUSH cut short
    if ch.chance(1, 3) {
        let n = ch.range(1, 32);
        let have = ch.below(n);
        out.push(0x5f + n as u8);
        for _ in 0..have {
            out.push(ch.next() as u8);
        }
        out.truncate(24_576);
    }
    out
}

fn run_shard(ctx: &ShardCtx, acc: &mut Acc) {
    let shard = ctx.shard;
    let report = |r: CaseResult, acc: &mut Acc| {
        if let CaseResult::Fail(v) = r {
            if ctx.known.lookup(ctx.prop, &v.signature).is_some() {
                *acc.known.entry(v.signature.clone()).or_default() += 1;
            } else if !acc.violations.iter().any(|x| x.signature == v.signature) {
                acc.violations.push(v);
            }
        }
    };
    if !ctx.fuzzing() {
    // ---- exhaustive: length 1 (shard 0) and length 2 (first byte split over the shards) ------------
    if shard == 0 {
        for a in 0..=255u8 {
            acc.case();
            acc.label("len1");
            let r = check_bytes(&[a], acc);
            report(r, acc);
        }
    }
    for a in (shard..256).step_by(SHARDS) {
        for b in 0..=255u8 {
            acc.case();
            acc.label("len2");
            let r = check_bytes(&[a as u8, b], acc);
            report(r, acc);
        }
    }
    // ---- every opcode byte followed by every truncation length of its immediate -------------------
    for op in (shard..256).step_by(SHARDS) {
        let n = push_len(op as u8);
        for have in 0..=n {
            for fill in [0x00u8, 0x5b, 0x60, 0x7f, 0xff, 0xfe] {
                let mut v = vec![op as u8];
                v.extend(std::iter::repeat(fill).take(have));
                acc.case();
                acc.label("opcode-x-truncation");
                let r = check_bytes(&v, acc);
                report(r, acc);
                // and the same behind a prefix, and followed by a JUMPDEST when complete
                let mut w = vec![0x5b, 0x00];
                w.extend(&v);
                if have == n {
                    w.push(0x5b);
                }
                acc.case();
                let r = check_bytes(&w, acc);
                report(r, acc);
            }
        }
    }
    // ---- PUSHn whose immediates are JUMPDEST / PUSH bytes -----------------------------------------
    for n in (1 + shard..=32).step_by(SHARDS) {
        for pat in 0..64u32 {
            let mut v = vec![0x5f + n as u8];
            for j in 0..n {
                let sel = (pat.wrapping_mul(2654435761).rotate_left(j as u32)) % 4;
                v.push(match sel {
                    0 => 0x5b,
                    1 => 0x60 + ((pat as usize + j) % 32) as u8,
                    2 => 0x7f,
                    _ => 0x5b,
                });
            }
            v.push(0x5b);
            acc.case();
            acc.label("push-of-jumpdest-and-push-bytes");
            let r = check_bytes(&v, acc);
            report(r, acc);
        }
    }
    // ---- truncations of the real-contract corpus near PUSH starts ----------------------------------
    let mut cut_index = 0usize;
    for (_, code) in corpus::corpus().iter() {
        let kinds = classify(code);
        let mut cuts = std::collections::BTreeSet::new();
        for (i, k) in kinds.iter().enumerate() {
            if *k == Kind::Start && push_len(code[i]) > 0 {
                for c in i + 1..=(i + 1 + push_len(code[i])).min(code.len()) {
                    cuts.insert(c);
                }
            }
        }
        for c in cuts {
            cut_index += 1;
            // quick: each shard takes 1/8 of a 1-in-6 sample; thorough: all cuts, split over the shards
            let take = match ctx.tier {
                Tier::Quick => cut_index % (SHARDS * 6) == shard,
                Tier::Thorough => cut_index % SHARDS == shard,
            };
            if !take || c == 0 {
                continue;
            }
            acc.case();
            acc.label("corpus-truncation");
            let r = check_bytes(&code[..c], acc);
            report(r, acc);
        }
    }
    }
    // ---- random strings -------------------------------------------------------------------------
    let cases = ctx.tier.pick(15_000, 200_000);
    drive(ctx, "random", cases, 3_000, acc, &|ch, acc| {
        let bytes = random_bytes(ch);
        if bytes.len() > 300 {
            acc.label("random-long");
        }
        acc.sample(|| json!({ "bytes": hex::encode(&bytes[..bytes.len().min(48)]), "len": bytes.len() }));
        check_bytes(&bytes, acc)
    });
}

fn replay(case: &Value, acc: &mut Acc) -> CaseResult {
    let bytes = case["bytes"].as_str().and_then(|s| hex::decode(s).ok()).unwrap_or_default();
    if bytes.is_empty() {
        return CaseResult::Pass;
    }
    check_bytes(&bytes, acc)
}

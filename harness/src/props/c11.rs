//! C11 — a slot's reported type depends only on the code that touches that slot.

use crate::{
    asm,
    core::{drive, fnv64, guard, Acc, CaseResult, Chooser, ShardCtx, Tier, Violation},
    idiom::{self, Kind, Truth},
    props::PropDef,
    refword::W,
    subj::{self, CountingWatchdog, VmCfg},
};
use serde_json::{json, Value};
use std::collections::BTreeSet;
use storage_layout_extractor::layout::StorageSlot;

pub fn def() -> PropDef {
    PropDef {
        id: "C11",
        level: "exploration",
        rule: "(a) pairs of idiom fragments (ground-truth layouts as for C04, 1-5 variables each) with disjoint slot sets, analysed \
               alone and together behind one dispatcher (three dispatcher shapes; the last branch sometimes runs off the end of \
               the code): layout(A+B) = layout(A) u layout(B) as sets of (index, offset, type); (b) injective renumberings of a \
               program's slot constants (s+2^128, s<<128, s<<64, small->small permutations, random 256-bit; PUSH widths change, jump \
               targets are re-assembled): layout(rho P) = rho(layout(P)). distinct = hash of the bytecodes; non-trivial = both \
               fragments yield a typed (non-any) entry, or the renumbering changes a PUSH width",
        assumptions: &[
            "programs whose own layout differs between two runs (hash-order instability, owned by C02) are excluded and counted",
            "pre-folded array hashes are only recognised for slots below 10000, so those variables keep small slots under a renumbering",
        ],
        run_shard,
        replay,
        describe: None,
        health,
        exhaustive: None,
    }
}

fn health(acc: &Acc, _t: Tier) -> Vec<String> {
    crate::props::require_labels(
        acc,
        &[
            ("union-compared", 300),
            ("union-both-typed", 200),
            ("rename-compared", 300),
            ("rename:add-2^128", 30),
            ("rename:shl-128", 30),
            ("rename:shl-64", 30),
            ("rename:permute-small", 30),
            ("rename:random", 30),
            ("rename-changes-push-width", 150),
            ("runs-off-the-end", 50),
        ],
    )
}

type Row = (W, usize, String);

fn rows(slots: &[StorageSlot]) -> BTreeSet<Row> {
    slots
        .iter()
        .map(|s| (subj::from_u256(s.index.0), s.offset, normal_type(&s.typ)))
        .collect()
}

/// type rendered without conflict payloads
fn normal_type(t: &storage_layout_extractor::tc::abi::AbiType) -> String {
    use storage_layout_extractor::tc::abi::AbiType as A;
    match t {
        A::ConflictedType { .. } => "conflict".into(),
        A::Array { size, tp } => format!("array[{:?}]({})", size, normal_type(tp)),
        A::DynArray { tp } => format!("dyn_array({})", normal_type(tp)),
        A::Mapping { key_type, value_type } => format!("mapping({} => {})", normal_type(key_type), normal_type(value_type)),
        A::Struct { elements } => format!(
            "struct({})",
            elements.iter().map(|e| format!("{}:{}", e.offset, normal_type(&e.typ))).collect::<Vec<_>>().join(",")
        ),
        other => format!("{other:?}"),
    }
}

enum Outcome {
    Layout(BTreeSet<Row>),
    Error(Vec<(String, u32)>),
    Skip(&'static str),
}

/// analyse twice; unstable layouts are C02's business
fn stable_layout(code: &[u8], acc: &mut Acc) -> Outcome {
    let mut seen: Option<BTreeSet<Row>> = None;
    for _ in 0..2 {
        let wd = CountingWatchdog::budget(3_000_000);
        match guard(|| subj::analyze(code, &VmCfg::default(), true, subj::dyn_wd(&wd))) {
            Err(p) => {
                acc.note(format!("subject panicked (owned by C01): {}", p.signature()));
                return Outcome::Skip("excluded_c01_panic");
            }
            Ok(Err(e)) => {
                if wd.fired() {
                    return Outcome::Skip("excluded_c03_budget");
                }
                return Outcome::Error(subj::error_kinds(&e));
            }
            Ok(Ok(l)) => {
                let r = rows(l.slots());
                match &seen {
                    None => seen = Some(r),
                    Some(prev) if *prev != r => return Outcome::Skip("excluded_unstable_c02"),
                    _ => {}
                }
            }
        }
    }
    Outcome::Layout(seen.unwrap())
}

fn disjoint_truths(ch: &mut Chooser) -> (Truth, Truth) {
    let a = idiom::gen_truth(ch, 5);
    let mut b = idiom::gen_truth(ch, 5);
    let used: Vec<W> = a.vars.iter().map(|v| v.slot).collect();
    // move colliding slots of b
    let mut taken = used.clone();
    for v in &mut b.vars {
        let mut s = v.slot;
        while taken.contains(&s) {
            s = s.add(W::from_u64(1_000));
        }
        v.slot = s;
        taken.push(s);
    }
    (a, b)
}

fn compile(t: &Truth, drop_final_halt: bool) -> Vec<u8> {
    let mut ins = idiom::compile(t, 0xa0b0_0000);
    if drop_final_halt {
        // the last branch runs off the end of the code (an implicit STOP)
        if matches!(ins.last(), Some(asm::Ins::Op(0x00))) {
            ins.pop();
        }
    }
    asm::assemble(&ins)
}

fn typed(r: &BTreeSet<Row>) -> bool {
    r.iter().any(|(_, _, t)| t != "Any")
}

pub fn check_union(a: &Truth, b: &Truth, drop_halt: bool, acc: &mut Acc) -> CaseResult {
    let mut ab = a.clone();
    ab.vars.extend(b.vars.iter().cloned());
    let (ca, cb, cab) = (compile(a, drop_halt), compile(b, drop_halt), compile(&ab, drop_halt));
    let case = json!({ "kind": "union", "a": a, "b": b, "drop_final_halt": drop_halt });
    let fail = |sig: String, detail: String| CaseResult::Fail(Violation::new(sig, detail, case.clone()));
    acc.label_if(drop_halt, "runs-off-the-end");
    let mut key = ca.clone();
    key.extend_from_slice(&cb);
    let (la, lb, lab) = (stable_layout(&ca, acc), stable_layout(&cb, acc), stable_layout(&cab, acc));
    for o in [&la, &lb, &lab] {
        if let Outcome::Skip(why) = o {
            acc.excluded(why);
            return CaseResult::Pass;
        }
    }
    match (la, lb, lab) {
        (Outcome::Layout(ra), Outcome::Layout(rb), Outcome::Layout(rab)) => {
            acc.label("union-compared");
            let both = typed(&ra) && typed(&rb);
            acc.label_if(both, "union-both-typed");
            acc.mark(fnv64(&key), both);
            let want: BTreeSet<Row> = ra.union(&rb).cloned().collect();
            if rab != want {
                let missing: Vec<_> = want.difference(&rab).collect();
                let extra: Vec<_> = rab.difference(&want).collect();
                let what = if missing.iter().any(|m| extra.iter().any(|e| e.0 == m.0 && e.1 == m.1)) {
                    "an entry changes its type when unrelated code is added"
                } else if !missing.is_empty() {
                    "an entry disappears when unrelated code is added"
                } else {
                    "an entry appears only when the fragments are combined"
                };
                return fail(
                    format!("the layout of two independent fragments is not the union of their layouts: {what}"),
                    format!("missing {missing:?}\nextra {extra:?}"),
                );
            }
            CaseResult::Pass
        }
        (x, y, z) => {
            let cls = |o: &Outcome| matches!(o, Outcome::Layout(_));
            if (cls(&x) && cls(&y) && !cls(&z)) || (cls(&z) && (!cls(&x) || !cls(&y))) {
                let desc = |o: &Outcome| match o {
                    Outcome::Layout(_) => "Ok".to_string(),
                    Outcome::Error(e) => format!("Err{e:?}"),
                    Outcome::Skip(s) => s.to_string(),
                };
                return fail(
                    "whether a fragment can be analysed depends on the unrelated code placed next to it".into(),
                    format!("A: {}  B: {}  A+B: {}", desc(&x), desc(&y), desc(&z)),
                );
            }
            acc.label("union-all-error");
            CaseResult::Pass
        }
    }
}

fn rename(t: &Truth, mode: usize, ch_words: &[W]) -> (Truth, Vec<(W, W)>) {
    let mut out = t.clone();
    let mut map = vec![];
    let mut used: Vec<W> = vec![];
    for (i, v) in out.vars.iter_mut().enumerate() {
        let s = v.slot;
        let keep_small = matches!(v.kind, Kind::DynArray { prefolded: true });
        let mut n = if keep_small {
            W::from_u64((s.low_u64() * 7 + 13) % 9_000)
        } else {
            match mode {
                0 => s.add(W::pow2(128)),
                1 => s.shl(W::from_u64(128)).add(W::pow2(250)),
                2 => s.shl(W::from_u64(64)).add(W::pow2(200)),
                3 => W::from_u64((s.low_u64().wrapping_mul(31).wrapping_add(17)) % 5_000 + 10),
                _ => ch_words[i % ch_words.len()],
            }
        };
        while used.contains(&n) {
            n = n.add(W::ONE);
        }
        used.push(n);
        map.push((s, n));
        v.slot = n;
    }
    (out, map)
}

pub fn check_rename(t: &Truth, mode: usize, words: &[W], acc: &mut Acc) -> CaseResult {
    let (rt, map) = rename(t, mode, words);
    let (c0, c1) = (compile(t, false), compile(&rt, false));
    let case = json!({ "kind": "rename", "truth": t, "mode": mode, "words": words });
    let fail = |sig: String, detail: String| CaseResult::Fail(Violation::new(sig, detail, case.clone()));
    acc.label(["rename:add-2^128", "rename:shl-128", "rename:shl-64", "rename:permute-small", "rename:random"][mode.min(4)]);
    let width_changed = c0.len() != c1.len();
    acc.label_if(width_changed, "rename-changes-push-width");
    let mut key = c0.clone();
    key.extend_from_slice(&c1);
    let (l0, l1) = (stable_layout(&c0, acc), stable_layout(&c1, acc));
    for o in [&l0, &l1] {
        if let Outcome::Skip(why) = o {
            acc.excluded(why);
            return CaseResult::Pass;
        }
    }
    match (l0, l1) {
        (Outcome::Layout(r0), Outcome::Layout(r1)) => {
            acc.label("rename-compared");
            acc.mark(fnv64(&key), width_changed || typed(&r0));
            // rho(layout(P)): rows at slots outside the map (none are expected) are kept as they are
            let want: BTreeSet<Row> = r0
                .iter()
                .map(|(s, o, ty)| (map.iter().find(|(a, _)| a == s).map(|(_, b)| *b).unwrap_or(*s), *o, ty.clone()))
                .collect();
            if r1 != want {
                let missing: Vec<_> = want.difference(&r1).collect();
                let extra: Vec<_> = r1.difference(&want).collect();
                let what = if missing.len() > extra.len() {
                    "entries are lost under the renumbering"
                } else if missing.iter().any(|m| extra.iter().any(|e| e.0 == m.0)) {
                    "an entry's type or offset changes under the renumbering"
                } else {
                    "entries move to slots the renumbering does not produce"
                };
                return fail(
                    format!("renumbering the slot constants does not renumber the layout: {what}"),
                    format!("map {map:?}\nmissing {missing:?}\nextra {extra:?}"),
                );
            }
            CaseResult::Pass
        }
        (Outcome::Error(_), Outcome::Error(_)) => CaseResult::Pass,
        _ => fail("whether a program can be analysed depends on its slot numbers".into(), format!("map {map:?}")),
    }
}

fn run_shard(ctx: &ShardCtx, acc: &mut Acc) {
    let n = ctx.tier.pick(5_000, 50_000);
    drive(ctx, "union", n, 500, acc, &|ch, acc| {
        let (a, mut b) = disjoint_truths(ch);
        b.dispatcher = ch.below(3) as u8;
        let drop_halt = ch.chance(1, 5);
        acc.sample(|| json!({ "a": a, "b": b }));
        check_union(&a, &b, drop_halt, acc)
    });
    drive(ctx, "rename", n, 500, acc, &|ch, acc| {
        let t = idiom::gen_truth(ch, 6);
        let mode = ch.below(5);
        let words: Vec<W> = (0..6).map(|_| ch.word()).collect();
        check_rename(&t, mode, &words, acc)
    });
}

fn replay(case: &Value, acc: &mut Acc) -> CaseResult {
    match case["kind"].as_str() {
        Some("union") => {
            let a: Truth = serde_json::from_value(case["a"].clone()).expect("replay case: a");
            let b: Truth = serde_json::from_value(case["b"].clone()).expect("replay case: b");
            check_union(&a, &b, case["drop_final_halt"].as_bool().unwrap_or(false), acc)
        }
        Some("rename") => {
            let t: Truth = serde_json::from_value(case["truth"].clone()).expect("replay case: truth");
            let words: Vec<W> = serde_json::from_value(case["words"].clone()).expect("replay case: words");
            check_rename(&t, case["mode"].as_u64().unwrap_or(0) as usize, &words, acc)
        }
        _ => panic!("replay case: kind"),
    }
}

//! C03 — analysis always halts, and execution stays within the configured bounds.

use crate::{
    asm,
    core::{drive, fnv64, guard, Acc, CaseResult, Chooser, ShardCtx, Tier, Violation},
    decode::{classify, Kind},
    gen::{g_cf, g_loop, CfOpts},
    props::PropDef,
    subj::{self, CountingWatchdog, VmCfg},
};
use serde_json::{json, Value};

pub fn def() -> PropDef {
    PropDef {
        id: "C03",
        level: "exploration",
        rule: "loop programs (tight, nested, self-jump, jump tables, stack growers, JUMPI fork bombs to shared targets, storage \
               read-mask-write cycles, running-value loops) and control-flow programs with back edges, <= ~150 bytes, x iteration \
               limit 1..12, fork limit 1..60, gas limit 300..block limit. VM oracle (VM::execute under a counting watchdog with \
               poll interval 1): per state and offset visit_count <= I; per JUMPDEST cond_jump_count <= F; #states = 1 + sum of \
               cond_jump_counts <= 1 + F*#JUMPDEST; min-gas of the visited instructions <= gas_limit + 2*max visited cost; total \
               polls <= threads_bound*(len*I+1)*copy factor. Type-checker oracle: analyze() returns within a poll budget of 60 000 \
               (+ a confirmation run at 16x) - exceeding both is 'did not halt'. distinct = hash of (bytecode, config); \
               non-trivial = some offset visited >= 2 times, or a target forked to >= 2 times, or >= 3 threads",
        assumptions: &[
            "halting is decided as 'halts within an explicit bound'; for the VM the bound is arithmetic over the configured limits, for lifting/inference/unification it is an empirical poll budget (largest count seen on a halting case is reported)",
            "the gas bound has two instructions of slack: the limit is tested after charging, and the last instruction of an erroring thread is visited but not charged",
        ],
        run_shard,
        replay,
        describe: None,
        health,
        exhaustive: None,
    }
}

fn health(acc: &Acc, _t: Tier) -> Vec<String> {
    crate::props::require_labels(
        acc,
        &[
            ("shape:tight", 100),
            ("shape:nested", 100),
            ("shape:self-jump", 100),
            ("shape:jump-table", 100),
            ("shape:stack-grower", 100),
            ("shape:fork-bomb", 100),
            ("shape:read-mask-write", 100),
            ("shape:running-value", 100),
            ("visit>=2", 1000),
            ("fork-limit-reached", 100),
            ("iteration-limit-reached", 500),
            ("gas-limit-reached", 50),
            ("unify-rounds>=3", 20),
        ],
    )
}

#[derive(Clone, Debug)]
pub struct Case {
    pub bytes: Vec<u8>,
    pub cfg:   VmCfg,
    pub shape: String,
}

fn gen_cfg(ch: &mut Chooser) -> VmCfg {
    let d = VmCfg::default();
    VmCfg {
        gas_limit:  *ch.pick(&[d.gas_limit, d.gas_limit, 300, 1_000, 5_000, 100_000, 3_000_000]),
        iterations: ch.range(1, 12),
        forks:      *ch.pick(&[1usize, 2, 3, 5, 10, 25, 50, 60]),
        value_size: *ch.pick(&[d.value_size, d.value_size, 20, 1000]),
        memory_op:  d.memory_op,
        permissive: ch.chance(1, 3),
    }
}

pub fn gen_case(ch: &mut Chooser) -> Case {
    let cfg = gen_cfg(ch);
    if ch.chance(3, 4) {
        let l = g_loop(ch);
        Case {
            bytes: l.b.code(),
            cfg,
            shape: l.shape.to_string(),
        }
    } else {
        let p = g_cf(
            ch,
            &CfOpts {
                back_edges: true,
                faults: false,
                trunc_tail: false,
                max_blocks: 8,
            },
        );
        Case {
            bytes: p.b.code(),
            cfg,
            shape: "cf-back-edges".into(),
        }
    }
}

fn case_json(c: &Case) -> Value {
    json!({ "bytes": hex::encode(&c.bytes), "config": c.cfg, "shape": c.shape })
}

const TC_BUDGET: u64 = 60_000;

pub fn check_case(c: &Case, acc: &mut Acc) -> CaseResult {
    let code = &c.bytes;
    let cfg = &c.cfg;
    let fail = |sig: String, detail: String| CaseResult::Fail(Violation::new(sig, detail, case_json(c)));
    acc.label(&format!("shape:{}", c.shape));
    let kinds = classify(code);
    let starts: Vec<usize> = (0..code.len()).filter(|i| kinds[*i] == Kind::Start).collect();
    let n_jumpdest = starts.iter().filter(|i| code[**i] == 0x5b).count();
    let has_copy = starts.iter().any(|i| matches!(code[*i], 0x37 | 0x39 | 0x3c | 0x3e | 0xf1 | 0xf2 | 0xf4 | 0xfa));
    let threads_bound = 1 + cfg.forks * n_jumpdest;
    let copy_factor = if has_copy { 770 } else { 1 };
    let poll_bound = (threads_bound as u64) * ((code.len() * cfg.iterations + 1) as u64) * copy_factor;

    // ---- VM -----------------------------------------------------------------------------------------
    let wd = CountingWatchdog::budget(poll_bound + 1);
    let run = match guard(|| subj::run_vm(code, cfg, subj::dyn_wd(&wd))) {
        Err(p) => {
            acc.excluded("excluded_c01_panic");
            acc.note(format!("subject panicked (owned by C01): {}", p.signature()));
            return CaseResult::Pass;
        }
        Ok(Err(e)) => return fail("the VM could not be set up for a generated program".into(), e),
        Ok(Ok(r)) => r,
    };
    let mut key = code.clone();
    key.extend_from_slice(format!("{cfg:?}").as_bytes());
    // B5
    if wd.fired() {
        return fail(
            "execution exceeded the step bound implied by the limits".into(),
            format!("more than {poll_bound} main-loop polls (threads bound {threads_bound}, len {}, I {})", code.len(), cfg.iterations),
        );
    }
    acc.max("max_vm_polls", wd.count());
    // B1
    let mut max_visit = 0usize;
    let mut gas_reached = false;
    for (si, s) in run.states.iter().enumerate() {
        let mut g = 0u64;
        let mut max_cost = 0u64;
        for o in 0..code.len() {
            let c_ = s.visited_instructions().visit_count(o as u32).unwrap_or(0);
            max_visit = max_visit.max(c_);
            if c_ > cfg.iterations {
                let first = s.fork_point() as usize == o || code[o] == 0x5b;
                return fail(
                    format!(
                        "an instruction was executed more often than the iteration limit{}",
                        if first { " (a JUMPDEST / fork entry)" } else { "" }
                    ),
                    format!("state {si}: visit_count({o}) = {c_} > {} (opcode {:#04x})", cfg.iterations, code[o]),
                );
            }
            if c_ > 0 {
                g += c_ as u64 * run.gas[o];
                max_cost = max_cost.max(run.gas[o]);
            }
        }
        // B4
        if g > cfg.gas_limit as u64 + 2 * max_cost {
            return fail(
                "a thread kept executing after its minimum gas exceeded the gas limit".into(),
                format!("state {si}: minimum gas of visited instructions {g}, limit {}, max single cost {max_cost}", cfg.gas_limit),
            );
        }
        if g > cfg.gas_limit as u64 {
            gas_reached = true;
        }
    }
    // B2, B3
    let total_forks: usize = run.fork_counts.values().sum();
    for (t, n) in &run.fork_counts {
        if *n > cfg.forks {
            return fail(
                "a jump destination was forked to more often than the fork limit".into(),
                format!("cond_jump_count({t}) = {n} > {}", cfg.forks),
            );
        }
    }
    if run.states.len() != 1 + total_forks {
        return fail(
            "the number of threads differs from one plus the number of forks".into(),
            format!("{} states, {} forks recorded", run.states.len(), total_forks),
        );
    }
    if run.states.len() > threads_bound {
        return fail(
            "more threads were created than one plus fork limit times jump destinations".into(),
            format!("{} states > {threads_bound}", run.states.len()),
        );
    }
    acc.label_if(max_visit >= 2, "visit>=2");
    acc.label_if(max_visit >= cfg.iterations && cfg.iterations >= 2, "iteration-limit-reached");
    acc.label_if(run.fork_counts.values().any(|n| *n >= cfg.forks), "fork-limit-reached");
    acc.label_if(gas_reached || run.errors.iter().any(|(k, _)| k == "GasLimitExceeded"), "gas-limit-reached");
    let nontrivial = max_visit >= 2 || run.fork_counts.values().any(|n| *n >= 2) || run.states.len() >= 3;
    acc.mark(fnv64(&key), nontrivial);
    acc.max("max_threads", run.states.len() as u64);

    // ---- whole analysis halts ------------------------------------------------------------------------
    // Small value-size limits keep these loops cheap; the type checker sees whatever execution produced.
    let wd1 = CountingWatchdog::budget(poll_bound + TC_BUDGET);
    let r1 = guard(|| subj::analyze(code, cfg, true, subj::dyn_wd(&wd1)));
    if let Err(p) = &r1 {
        acc.excluded("excluded_c01_panic");
        acc.note(format!("subject panicked (owned by C01): {}", p.signature()));
        return CaseResult::Pass;
    }
    if wd1.fired() {
        // confirm with 16x the budget before reporting
        let wd2 = CountingWatchdog::budget(poll_bound + 16 * TC_BUDGET);
        let _ = guard(|| subj::analyze(code, cfg, true, subj::dyn_wd(&wd2)));
        if wd2.fired() {
            return fail(
                "lifting / inference / unification did not halt within the poll budget".into(),
                format!(
                    "analyze() was still polling after {} polls (VM alone needs {}); halting comparable programs need ~10^3",
                    wd2.count(),
                    wd.count()
                ),
            );
        }
        acc.label("needed-16x-budget");
    } else {
        let tc_polls = wd1.count().saturating_sub(wd.count());
        acc.max("max_typechecker_polls_on_a_halting_case", tc_polls);
        acc.label_if(tc_polls >= 3 * (run.states.len() as u64 + 10), "unify-rounds>=3");
    }
    CaseResult::Pass
}

/// the read-mask-write cycle known to make unification spin (kept as a directed probe)
fn directed() -> Vec<Case> {
    let hex = "3360005573ffffffffffffffffffffffffffffffffffffffff60005416600155600154600055";
    vec![Case {
        bytes: hex::decode(hex).unwrap(),
        cfg:   VmCfg::default(),
        shape: "read-mask-write".into(),
    }]
}

fn run_shard(ctx: &ShardCtx, acc: &mut Acc) {
    if ctx.shard == 0 {
        for c in directed() {
            acc.case();
            if let CaseResult::Fail(v) = check_case(&c, acc) {
                if ctx.known.lookup(ctx.prop, &v.signature).is_some() {
                    *acc.known.entry(v.signature.clone()).or_default() += 1;
                } else if !acc.violations.iter().any(|x| x.signature == v.signature) {
                    acc.violations.push(v);
                }
            }
        }
    }
    drive(ctx, "loops", ctx.tier.pick(90_000, 400_000), 500, acc, &|ch, acc| {
        let c = gen_case(ch);
        acc.sample(|| json!({ "bytes": hex::encode(&c.bytes), "config": c.cfg, "shape": c.shape, "asm": asm::disasm(&c.bytes) }));
        check_case(&c, acc)
    });
    let _ = Tier::Quick;
}

fn replay(case: &Value, acc: &mut Acc) -> CaseResult {
    let c = Case {
        bytes: hex::decode(case["bytes"].as_str().expect("replay case: bytes")).expect("replay case: hex"),
        cfg:   serde_json::from_value(case["config"].clone()).unwrap_or_default(),
        shape: case["shape"].as_str().unwrap_or("replay").to_string(),
    };
    check_case(&c, acc)
}

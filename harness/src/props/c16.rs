//! C16 — combining typing evidence is independent of order and grouping.

use crate::{
    core::{fnv64, guard, Acc, CaseResult, ShardCtx, Tier, Violation, SHARDS},
    props::PropDef,
};
use serde_json::{json, Value};
use std::collections::BTreeMap;
#[allow(unused_imports)]
use storage_layout_extractor::tc::expression::TypeExpression as _TE;
use storage_layout_extractor::{
    tc::{
        expression::{TypeExpression, WordUse, TE},
        state::{type_variable::TypeVariable, TypeCheckerState},
        unification::{merge, Merge},
    },
    vm::value::{Provenance, RSV, RSVD},
};

pub fn def() -> PropDef {
    PropDef {
        id: "C16",
        level: "exploration",
        rule: "exhaustive: all ordered pairs and all ordered triples over the finite evidence domain of the statement (Any, dynamic \
               bytes, free word usages x widths {unknown,8,32,160,192,256}, fixed-width usages at their width, mappings / dynamic \
               arrays / fixed arrays (lengths 3, 4 and 2^64+3) over two variables, one conflict; in addition the empty struct and the \
               empty packed encoding, whose merges allocate no variables). Laws on unification::merge with conflict \
               payloads dropped, emitted equalities closed into an equivalence and variables replaced by class representatives: \
               merge(a,b) = merge(b,a); merge(merge(a,b),c) = merge(a,merge(b,c)). distinct = the operand tuple; non-trivial = \
               operands pairwise distinct",
        assumptions: &["conflict explanations and the choice of representative among equated variables are not compared (as the statement allows)"],
        run_shard,
        replay,
        describe: None,
        health: crate::props::no_health,
        exhaustive: Some(true),
    }
}

struct Dom {
    state: TypeCheckerState,
    elems: Vec<(String, TE)>,
    parent: TypeVariable,
}

fn fresh(state: &mut TypeCheckerState) -> TypeVariable {
    state.register(RSV::new_value(0, Provenance::Synthetic))
}

fn domain() -> Dom {
    let mut state = TypeCheckerState::empty();
    let parent = fresh(&mut state);
    let a = fresh(&mut state);
    let b = fresh(&mut state);
    let mut elems: Vec<(String, TE)> = vec![("Any".into(), TE::Any), ("Bytes".into(), TE::Bytes)];
    for (uname, usage) in [
        ("Bytes", WordUse::Bytes),
        ("Numeric", WordUse::Numeric),
        ("Unsigned", WordUse::UnsignedNumeric),
        ("Signed", WordUse::SignedNumeric),
    ] {
        for w in [None, Some(8), Some(32), Some(160), Some(192), Some(256)] {
            elems.push((
                format!("Word({uname},{})", w.map(|x: usize| x.to_string()).unwrap_or("?".into())),
                TE::word(w, usage),
            ));
        }
    }
    elems.push(("Word(Bool,8)".into(), TE::bool()));
    elems.push(("Word(Address,160)".into(), TE::address()));
    elems.push(("Word(Selector,32)".into(), TE::selector()));
    elems.push(("Word(Function,192)".into(), TE::function()));
    elems.push(("Mapping(a,b)".into(), TE::mapping(a, b)));
    elems.push(("Mapping(b,a)".into(), TE::mapping(b, a)));
    elems.push(("DynArray(a)".into(), TE::dyn_array(a)));
    elems.push(("DynArray(b)".into(), TE::dyn_array(b)));
    elems.push((
        "FixedArray(a,3)".into(),
        TE::FixedArray {
            element: a,
            length:  ethnum::U256::new(3),
        },
    ));
    elems.push((
        "FixedArray(b,3)".into(),
        TE::FixedArray {
            element: b,
            length:  ethnum::U256::new(3),
        },
    ));
    elems.push((
        "FixedArray(a,4)".into(),
        TE::FixedArray {
            element: a,
            length:  ethnum::U256::new(4),
        },
    ));
    elems.push((
        "FixedArray(a,2^64+3)".into(),
        TE::FixedArray {
            element: a,
            length:  (ethnum::U256::ONE << 64) + ethnum::U256::new(3),
        },
    ));
    // the two empty encodings (outside the domain the property lists, kept because their merges create
    // no new variables): an empty struct and an empty packed encoding
    elems.push(("Struct([])".into(), TE::struct_of(Vec::<storage_layout_extractor::tc::expression::Span>::new())));
    elems.push(("Packed([])".into(), TE::packed_of(Vec::<storage_layout_extractor::tc::expression::Span>::new())));
    elems.push((
        "Conflict".into(),
        TE::conflict(TE::bool(), TE::address(), "seed conflict"),
    ));
    Dom { state, elems, parent }
}

/// Normal form of a merge outcome: (expression with conflicts collapsed and variables replaced by
/// representatives, equivalence classes of the emitted equalities, judgements)
#[derive(Clone, Debug, PartialEq, Eq)]
struct Norm {
    expr:   String,
    eqs:    Vec<Vec<usize>>,
    judged: Vec<String>,
}

#[derive(Default, Clone)]
struct Uf(BTreeMap<usize, usize>);
impl Uf {
    fn find(&mut self, x: usize) -> usize {
        let p = *self.0.get(&x).unwrap_or(&x);
        if p == x {
            x
        } else {
            let r = self.find(p);
            self.0.insert(x, r);
            r
        }
    }
    fn union(&mut self, a: usize, b: usize) {
        let (ra, rb) = (self.find(a), self.find(b));
        if ra != rb {
            // smaller index is the representative (any fixed choice works)
            let (lo, hi) = (ra.min(rb), ra.max(rb));
            self.0.insert(hi, lo);
            self.0.entry(lo).or_insert(lo);
        }
    }
    fn classes(&mut self) -> Vec<Vec<usize>> {
        let keys: Vec<usize> = self.0.keys().copied().collect();
        let mut m: BTreeMap<usize, Vec<usize>> = BTreeMap::new();
        for k in keys {
            let r = self.find(k);
            m.entry(r).or_default().push(k);
        }
        m.into_values().filter(|c| c.len() > 1).collect()
    }
}

fn tv_index(t: TypeVariable) -> usize {
    use storage_layout_extractor::data::vector_map::ToUniqueIndex;
    t.index()
}

fn norm_expr(e: &TE, uf: &mut Uf) -> String {
    match e {
        TE::Conflict { .. } => "Conflict".into(),
        TE::Any => "Any".into(),
        TE::Bytes => "Bytes".into(),
        TE::Word { width, usage } => format!("Word({usage:?},{width:?})"),
        TE::Mapping { key, value } => format!("Mapping({},{})", uf.find(tv_index(*key)), uf.find(tv_index(*value))),
        TE::DynamicArray { element } => format!("DynArray({})", uf.find(tv_index(*element))),
        TE::FixedArray { element, length } => format!("FixedArray({},{length})", uf.find(tv_index(*element))),
        TE::Packed { types, is_struct } => format!(
            "Packed({is_struct},{:?})",
            types
                .iter()
                .map(|s| (uf.find(tv_index(s.typ)), s.offset, s.size))
                .collect::<Vec<_>>()
        ),
        TE::Equal { id } => format!("Equal({})", uf.find(tv_index(*id))),
    }
}

fn collect(m: &Merge, uf: &mut Uf, judged: &mut Vec<TE>) {
    for e in &m.equalities {
        uf.union(tv_index(e.left), tv_index(e.right));
    }
    for j in &m.judgements {
        judged.push(j.expr.clone());
    }
}

fn finish(expr: &TE, mut uf: Uf, judged: Vec<TE>) -> Norm {
    let expr = norm_expr(expr, &mut uf);
    let mut j: Vec<String> = judged.iter().map(|e| norm_expr(e, &mut uf)).collect();
    j.sort();
    Norm {
        expr,
        eqs: uf.classes(),
        judged: j,
    }
}

fn merge2(d: &mut Dom, a: &TE, b: &TE) -> Result<(TE, Merge), crate::core::PanicSig> {
    let parent = d.parent;
    let state = &mut d.state;
    guard(|| {
        let m = merge(a.clone(), b.clone(), parent, state);
        (m.expression.clone(), m)
    })
}

fn kind_of(name: &str) -> &str {
    name.split('(').next().unwrap_or(name)
}

fn word_parts(name: &str) -> Option<(&str, &str)> {
    let inner = name.strip_prefix("Word(")?.strip_suffix(')')?;
    inner.split_once(',')
}

/// the shape of an operand tuple: its multiset of evidence kinds, with words abstracted to their usage
fn shape(names: &[&str]) -> String {
    let mut v: Vec<String> = names
        .iter()
        .map(|n| match word_parts(n) {
            Some((u, w)) => format!("Word({u},{})", if w == "?" { "?" } else { "w" }),
            None => kind_of(n).to_string(),
        })
        .collect();
    v.sort();
    v.join(" + ")
}

fn check_pair(d: &mut Dom, i: usize, j: usize, acc: &mut Acc) -> CaseResult {
    let (na, a) = d.elems[i].clone();
    let (nb, b) = d.elems[j].clone();
    acc.mark(fnv64(format!("2:{i}:{j}").as_bytes()), i != j);
    let case = json!({ "law": "commutativity", "operands": [na, nb] });
    let run = |d: &mut Dom, x: &TE, y: &TE| -> Result<Norm, crate::core::PanicSig> {
        let (e, m) = merge2(d, x, y)?;
        let mut uf = Uf::default();
        let mut judged = vec![];
        collect(&m, &mut uf, &mut judged);
        Ok(finish(&e, uf, judged))
    };
    let ab = run(d, &a, &b);
    let ba = run(d, &b, &a);
    match (ab, ba) {
        (Ok(x), Ok(y)) if x == y => CaseResult::Pass,
        (Ok(x), Ok(y)) => CaseResult::Fail(Violation::new(
            format!("merge is not commutative on {{{}}}", shape(&[&na, &nb])),
            format!("merge({na},{nb}) = {x:?}\nmerge({nb},{na}) = {y:?}"),
            case,
        )),
        (Err(p), _) | (_, Err(p)) => CaseResult::Fail(Violation::new(
            format!("merge {} on {{{}}}", p.signature(), shape(&[&na, &nb])),
            p.msg,
            case,
        )),
    }
}

fn check_triple(d: &mut Dom, i: usize, j: usize, k: usize, acc: &mut Acc) -> CaseResult {
    let (na, a) = d.elems[i].clone();
    let (nb, b) = d.elems[j].clone();
    let (nc, c) = d.elems[k].clone();
    acc.mark(fnv64(format!("3:{i}:{j}:{k}").as_bytes()), i != j && j != k && i != k);
    let case = json!({ "law": "associativity", "operands": [na, nb, nc] });
    // (a*b)*c
    let left = (|| -> Result<Norm, crate::core::PanicSig> {
        let mut uf = Uf::default();
        let mut judged = vec![];
        let (ab, m1) = merge2(d, &a, &b)?;
        collect(&m1, &mut uf, &mut judged);
        let (abc, m2) = merge2(d, &ab, &c)?;
        collect(&m2, &mut uf, &mut judged);
        Ok(finish(&abc, uf, judged))
    })();
    let right = (|| -> Result<Norm, crate::core::PanicSig> {
        let mut uf = Uf::default();
        let mut judged = vec![];
        let (bc, m1) = merge2(d, &b, &c)?;
        collect(&m1, &mut uf, &mut judged);
        let (abc, m2) = merge2(d, &a, &bc)?;
        collect(&m2, &mut uf, &mut judged);
        Ok(finish(&abc, uf, judged))
    })();
    match (left, right) {
        (Ok(x), Ok(y)) if x == y => CaseResult::Pass,
        // contradictory evidence: both groupings report the conflict; which component variables
        // were equated on the way is not part of the outcome (C14 makes the same exception)
        (Ok(x), Ok(y)) if x.expr == "Conflict" && y.expr == "Conflict" => {
            acc.label("both-groupings-conflict");
            CaseResult::Pass
        }
        (Ok(x), Ok(y)) => {
            if let Some(sig) = absorber_family(&d.elems, &[i, j, k], &x.expr, &y.expr, d) {
                return CaseResult::Fail(Violation::new(
                    sig,
                    format!("merge(merge({na},{nb}),{nc}) = {x:?}\nmerge({na},merge({nb},{nc})) = {y:?}"),
                    case,
                ));
            }
            if let Some(sig) = array_encoding_family(&d.elems, &[i, j, k], &x.expr, &y.expr) {
                return CaseResult::Fail(Violation::new(
                    sig,
                    format!("merge(merge({na},{nb}),{nc}) = {x:?}\nmerge({na},merge({nb},{nc})) = {y:?}"),
                    case,
                ));
            }
            let what = if x.expr != y.expr {
                format!("result {} vs {}", abstract_expr(&x.expr), abstract_expr(&y.expr))
            } else {
                "emitted equalities differ".to_string()
            };
            CaseResult::Fail(Violation::new(
                format!("merge is not associative on {{{}}}: {what}", shape(&[&na, &nb, &nc])),
                format!("merge(merge({na},{nb}),{nc}) = {x:?}\nmerge({na},merge({nb},{nc})) = {y:?}"),
                case,
            ))
        }
        (Err(p), _) | (_, Err(p)) => CaseResult::Fail(Violation::new(
            format!("merge {} on {{{}}}", p.signature(), shape(&[&na, &nb, &nc])),
            p.msg,
            case,
        )),
    }
}

/// The one family recorded as a known finding: exactly one word-absorbing constructor (dynamic bytes
/// or a dynamic array) together with two words that conflict with each other; one grouping lets the
/// constructor absorb both words, the other meets the conflict first.
fn absorber_family(elems: &[(String, TE)], idx: &[usize], x: &str, y: &str, _d: &Dom) -> Option<String> {
    let names: Vec<&str> = idx.iter().map(|i| elems[*i].0.as_str()).collect();
    let absorbers: Vec<&&str> = names.iter().filter(|n| **n == "Bytes" || n.starts_with("DynArray")).collect();
    let words: Vec<usize> = idx.iter().copied().filter(|i| elems[*i].0.starts_with("Word(")).collect();
    if absorbers.len() != 1 || words.len() != 2 {
        return None;
    }
    // the two words must conflict with each other (reference lattice, independent of the subject)
    if !words_conflict(&elems[words[0]].1, &elems[words[1]].1) {
        return None;
    }
    let absorber = if *absorbers[0] == "Bytes" { "Bytes" } else { "DynArray" };
    let pair = [abstract_expr(x), abstract_expr(y)];
    if pair.contains(&"Conflict".to_string()) && pair.contains(&absorber.to_string()) {
        Some(format!(
            "merge is not associative: {absorber} absorbs two mutually conflicting words in one grouping and conflicts in the other"
        ))
    } else {
        None
    }
}

/// The second recorded family: a dynamic array merged with a packed encoding is taken for dynamic bytes
/// (the shape of a `bytes`/`string` slot), which forgets the element variable. With a word as third
/// piece the result is the array in one grouping (the array absorbs the word as its length first) and
/// bytes in the other; with a second dynamic array the element variables are equated in one grouping
/// only.
fn array_encoding_family(elems: &[(String, TE)], idx: &[usize], x: &str, y: &str) -> Option<String> {
    let names: Vec<&str> = idx.iter().map(|i| elems[*i].0.as_str()).collect();
    let arrays = names.iter().filter(|n| n.starts_with("DynArray")).count();
    let encodings = names.iter().filter(|n| n.starts_with("Struct(") || n.starts_with("Packed(")).count();
    let words = names.iter().filter(|n| n.starts_with("Word(")).count();
    let pair = [abstract_expr(x), abstract_expr(y)];
    if arrays == 1 && encodings == 1 && words == 1 && pair.contains(&"DynArray".to_string()) && pair.contains(&"Bytes".to_string()) {
        return Some(
            "merge is not associative: a dynamic array and a packed encoding fold to dynamic bytes in one grouping, the array absorbs the word first in the other"
                .into(),
        );
    }
    if arrays == 2 && encodings == 1 && x == y {
        return Some("merge is not associative on {DynArray + DynArray + Packed}: emitted equalities differ".into());
    }
    None
}

/// reference word lattice of the statement of C15
fn words_conflict(a: &TE, b: &TE) -> bool {
    let (TE::Word { width: wa, usage: ua }, TE::Word { width: wb, usage: ub }) = (a, b) else {
        return false;
    };
    if let (Some(x), Some(y)) = (wa, wb) {
        if x != y {
            return true;
        }
    }
    use WordUse::*;
    let compatible = ua == ub
        || matches!(
            (ua, ub),
            (Bytes, _)
                | (_, Bytes)
                | (Numeric, UnsignedNumeric)
                | (UnsignedNumeric, Numeric)
                | (Numeric, SignedNumeric)
                | (SignedNumeric, Numeric)
                | (Numeric, Address)
                | (Address, Numeric)
                | (UnsignedNumeric, Address)
                | (Address, UnsignedNumeric)
        );
    !compatible
}

fn abstract_expr(s: &str) -> String {
    s.split('(').next().unwrap_or(s).to_string()
}

fn run_shard(ctx: &ShardCtx, acc: &mut Acc) {
    let mut d = domain();
    let n = d.elems.len();
    acc.max("domain_size", n as u64);
    if ctx.shard == 0 {
        acc.sample(|| json!({ "domain": d.elems.iter().map(|(n, _)| n.clone()).collect::<Vec<_>>() }));
    }
    let report = |r: CaseResult, acc: &mut Acc| {
        if let CaseResult::Fail(v) = r {
            if ctx.known.lookup(ctx.prop, &v.signature).is_some() {
                *acc.known.entry(v.signature.clone()).or_default() += 1;
            } else if !acc.violations.iter().any(|x| x.signature == v.signature) {
                acc.violations.push(v);
            }
        }
    };
    for i in (ctx.shard..n).step_by(SHARDS) {
        for j in 0..n {
            acc.case();
            acc.label("pair");
            let r = check_pair(&mut d, i, j, acc);
            report(r, acc);
            for k in 0..n {
                acc.case();
                acc.label("triple");
                let r = check_triple(&mut d, i, j, k, acc);
                report(r, acc);
            }
        }
    }
    let _ = Tier::Quick;
}

fn replay(case: &Value, acc: &mut Acc) -> CaseResult {
    let mut d = domain();
    let names: Vec<String> = serde_json::from_value(case["operands"].clone()).expect("replay case: operands");
    let idx: Vec<usize> = names
        .iter()
        .map(|n| d.elems.iter().position(|(m, _)| m == n).expect("replay case: unknown operand"))
        .collect();
    match idx.as_slice() {
        [i, j] => check_pair(&mut d, *i, *j, acc),
        [i, j, k] => check_triple(&mut d, *i, *j, *k, acc),
        _ => panic!("replay case: arity"),
    }
}

//! Self-tests of the harness' own trusted components.

pub fn main(_args: &[String]) {
    println!("selftest: (not yet implemented)");
}

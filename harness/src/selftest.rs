//! Self-tests of the harness' own trusted components: RefWord arithmetic is dumped as operation tuples
//! that `py/refcheck.py` recomputes with Python integers.

use crate::refword::{boundary_words_small, keccak_words, W};
use std::io::Write;

fn splitmix(state: &mut u64) -> u64 {
    *state = state.wrapping_add(0x9e3779b97f4a7c15);
    let mut z = *state;
    z = (z ^ (z >> 30)).wrapping_mul(0xbf58476d1ce4e5b9);
    z = (z ^ (z >> 27)).wrapping_mul(0x94d049bb133111eb);
    z ^ (z >> 31)
}

pub fn main(args: &[String]) {
    let out_path = args.first().cloned().unwrap_or_else(|| "work/selftest.tsv".to_string());
    let mut out = std::io::BufWriter::new(std::fs::File::create(&out_path).expect("create selftest file"));
    let set = boundary_words_small();
    let mut st = 0x1234_5678u64;
    let mut rnd = |st: &mut u64| W([splitmix(st), splitmix(st), splitmix(st), splitmix(st)]);
    let mut operands: Vec<(W, W)> = vec![];
    for a in &set {
        for b in &set {
            operands.push((*a, *b));
        }
    }
    for _ in 0..4000 {
        let a = rnd(&mut st);
        let b = match splitmix(&mut st) % 4 {
            0 => W::from_u64(splitmix(&mut st) % 300),
            1 => set[(splitmix(&mut st) % set.len() as u64) as usize],
            _ => rnd(&mut st),
        };
        operands.push((a, b));
    }
    let mut n = 0u64;
    let mut line = |op: &str, args: &[W], r: W, out: &mut dyn Write| {
        let a: Vec<String> = args.iter().map(|w| w.hex64()).collect();
        writeln!(out, "{op}\t{}\t{}", a.join("\t"), r.hex64()).unwrap();
    };
    for (a, b) in &operands {
        let (a, b) = (*a, *b);
        line("add", &[a, b], a.add(b), &mut out);
        line("sub", &[a, b], a.sub(b), &mut out);
        line("mul", &[a, b], a.mul(b), &mut out);
        line("div", &[a, b], a.div(b), &mut out);
        line("sdiv", &[a, b], a.sdiv(b), &mut out);
        line("mod", &[a, b], a.rem(b), &mut out);
        line("smod", &[a, b], a.smod(b), &mut out);
        line("lt", &[a, b], W::from_bool(a.ult(b)), &mut out);
        line("gt", &[a, b], W::from_bool(a.ugt(b)), &mut out);
        line("slt", &[a, b], W::from_bool(a.slt(b)), &mut out);
        line("sgt", &[a, b], W::from_bool(a.sgt(b)), &mut out);
        line("and", &[a, b], a.and(b), &mut out);
        line("or", &[a, b], a.or(b), &mut out);
        line("xor", &[a, b], a.xor(b), &mut out);
        line("not", &[a], a.not(), &mut out);
        // shift amount is the first operand (EVM order)
        line("shl", &[a, b], b.shl(a), &mut out);
        line("shr", &[a, b], b.shr(a), &mut out);
        line("sar", &[a, b], b.sar(a), &mut out);
        line("signextend", &[a, b], W::signextend(a, b), &mut out);
        line("byte", &[a, b], W::byte(a, b), &mut out);
        n += 20;
    }
    // the expensive ones on a subset
    for (i, (a, b)) in operands.iter().enumerate() {
        if i % 7 != 0 {
            continue;
        }
        let c = operands[(i * 31 + 5) % operands.len()].0;
        line("exp", &[*a, *b], a.exp(*b), &mut out);
        line("addmod", &[*a, *b, c], a.addmod(*b, c), &mut out);
        line("mulmod", &[*a, *b, c], a.mulmod(*b, c), &mut out);
        n += 3;
    }
    // keccak of one and two words (checked against hashlib's sha3 only if a keccak is available;
    // otherwise against the two known test vectors below)
    line("keccak1", &[W::ZERO], keccak_words(&[W::ZERO]), &mut out);
    line("keccak1", &[W::ONE], keccak_words(&[W::ONE]), &mut out);
    n += 2;
    out.flush().unwrap();
    println!("selftest: wrote {n} operation tuples to {out_path}");
}

//! Parent-side orchestration: replay tier, sharded child processes, merging, reporting.

use crate::{
    core::{
        self, committed_replays, save_found, verif_root, write_evidence, Acc, CaseResult, EvidenceSpec, KnownFindings,
        ShardCtx, Tier, Violation, SHARDS,
    },
    props::{self, PropDef},
};
use serde_json::{json, Value};
use std::{
    collections::BTreeMap,
    path::PathBuf,
    process::{Command, Stdio},
    time::{Duration, Instant},
};

fn usage() -> ! {
    eprintln!(
        "usage: vcheck run <ID> <quick|thorough> | vcheck replay <ID> <file> | vcheck selftest | vcheck list\n\
         env: VERIF_SEED=<int>"
    );
    std::process::exit(2)
}

pub fn seed_from_env() -> u64 {
    std::env::var("VERIF_SEED")
        .ok()
        .and_then(|s| s.trim().parse::<i128>().ok())
        .map(|v| v as u64)
        .unwrap_or(1)
}

fn work_dir(prop: &str) -> PathBuf {
    let d = verif_root().join("work").join("run").join(prop);
    let _ = std::fs::create_dir_all(&d);
    d
}

pub fn main() {
    core::install_panic_hook();
    let args: Vec<String> = std::env::args().collect();
    if args.len() < 2 {
        usage();
    }
    match args[1].as_str() {
        "list" => {
            for p in props::all() {
                println!("{}", p.id);
            }
        }
        "selftest" => crate::selftest::main(&args[2..]),
        "bench" => {
            let code = hex::decode("6001600055").unwrap();
            let cfg = crate::subj::VmCfg::default();
            let t = std::time::Instant::now();
            for _ in 0..200 {
                let _ = crate::subj::analyze(&code, &cfg, true, crate::subj::lazy());
            }
            println!("fast tc config: {:?} per analysis (valid={})", t.elapsed() / 200, crate::subj::fast_config_valid());
            let t = std::time::Instant::now();
            for _ in 0..50 {
                let _ = crate::subj::analyze(&code, &cfg, false, crate::subj::lazy());
            }
            println!("default tc config: {:?} per analysis", t.elapsed() / 50);
            let t = std::time::Instant::now();
            for _ in 0..200 {
                let _ = crate::subj::tc_config(true);
            }
            println!("tc_config(true): {:?}", t.elapsed() / 200);
        }
        "values" => {
            // vcheck values <hex>: print every collected value of every state
            let code = hex::decode(args[2].trim_start_matches("0x")).expect("hex");
            let cfg = crate::subj::VmCfg { permissive: true, ..Default::default() };
            let run = crate::subj::run_vm(&code, &cfg, crate::subj::lazy()).expect("run");
            println!("errors: {:?}", run.errors);
            for (i, s) in run.states.iter().enumerate() {
                println!("-- state {i} (fork point {})", s.fork_point());
                for v in s.clone().all_values() {
                    println!("   {v}");
                }
            }
        }
        "refdump" => {
            // vcheck refdump <hex>: the reference EVM's paths (storage keys with provenance)
            let code = hex::decode(args[2].trim_start_matches("0x")).expect("hex");
            let gas = crate::subj::gas_table(&code).unwrap_or_default();
            let gas_of = |i: usize| gas.get(i).copied().unwrap_or(0);
            let rr = crate::evmref::run(
                &code,
                &crate::evmref::RefCfg {
                    gas_of: &gas_of,
                    gas_limit: 30_000_000,
                    visit_limit: 1,
                    max_paths: 2_000,
                    max_steps: 400_000,
                    selfdestruct_halts: true,
                },
            );
            println!("complete={} paths={}", rr.complete, rr.paths.len());
            for (i, p) in rr.paths.iter().enumerate() {
                println!(
                    "path {i}: end {:?} at {} prov_imprecise={} mem_imprecise={} executed {}",
                    p.end,
                    p.end_offset,
                    p.prov_imprecise,
                    p.mem_imprecise,
                    p.executed.len()
                );
                for (k, at) in &p.sloads {
                    println!("   sload at {at}: key {:?} prov {:?}", k.w, rr.provenance(k));
                }
                for (k, v, at) in &p.sstores {
                    println!("   sstore at {at}: key {:?} value {:?} prov {:?}", k.w, v.w, rr.provenance(k));
                }
            }
        }
        "keccak" => {
            // vcheck keccak <hex>: keccak-256 of the bytes
            use sha3::Digest;
            let data = hex::decode(args[2].trim_start_matches("0x")).expect("hex");
            println!("{}", hex::encode(sha3::Keccak256::digest(&data)));
        }
        "analyze" => {
            // vcheck analyze <hex> [permissive]
            let code = hex::decode(args[2].trim_start_matches("0x")).expect("hex");
            let cfg = crate::subj::VmCfg {
                permissive: args.get(3).map(|s| s == "permissive").unwrap_or(false),
                ..Default::default()
            };
            println!("{}", crate::asm::disasm(&code));
            match crate::subj::analyze(&code, &cfg, false, crate::subj::lazy()) {
                Ok(l) => {
                    for s in l.slots() {
                        println!("{}", serde_json::to_string(s).unwrap());
                    }
                }
                Err(e) => println!("ERR {:?}", crate::subj::error_kinds(&e)),
            }
        }
        "run" => {
            if args.len() < 4 {
                usage();
            }
            let tier = match args[3].as_str() {
                "quick" => Tier::Quick,
                "thorough" => Tier::Thorough,
                _ => usage(),
            };
            let Some(p) = props::find(&args[2]) else { usage() };
            std::process::exit(run_parent(&p, tier, seed_from_env()));
        }
        "replay" => {
            if args.len() < 4 {
                usage();
            }
            let Some(p) = props::find(&args[2]) else { usage() };
            std::process::exit(replay_one(&p, &PathBuf::from(&args[3])));
        }
        "__shard" => {
            // vcheck __shard <ID> <tier> <seed> <shard> <out>
            let p = props::find(&args[2]).expect("prop");
            let tier = if args[3] == "quick" { Tier::Quick } else { Tier::Thorough };
            let seed: u64 = args[4].parse().unwrap();
            let shard: usize = args[5].parse().unwrap();
            let out = PathBuf::from(&args[6]);
            child_shard(&p, tier, seed, shard, &out);
        }
        "__fuzzone" => {
            // vcheck __fuzzone <target> <ID> <input file>: one fuzzer input outside the fuzzer
            let data = std::fs::read(&args[4]).expect("input");
            let (target, prop) = (args[2].clone(), args[3].clone());
            let known = KnownFindings::load();
            let code = run_on_big_stack(move || {
                let mut acc = Acc::new();
                match crate::fuzzing::one_input(&target, &prop, &data, &mut acc) {
                    CaseResult::Pass => 0,
                    CaseResult::Fail(v) if known.lookup(&prop, &v.signature).is_some() => 0,
                    CaseResult::Fail(v) => {
                        let path = save_found(&prop, &v);
                        println!("{}", path.display());
                        1
                    }
                }
            });
            std::process::exit(code);
        }
        "__fuzzcensus" => {
            // vcheck __fuzzcensus <target> <ID> <corpus dir> <out>: classify the fuzzer's final corpus
            let (target, prop) = (args[2].clone(), args[3].clone());
            let dir = PathBuf::from(&args[4]);
            let out = PathBuf::from(&args[5]);
            run_on_big_stack(move || {
                let mut acc = Acc::new();
                let mut paths: Vec<_> = std::fs::read_dir(&dir)
                    .map(|rd| rd.filter_map(|e| e.ok()).map(|e| e.path()).collect())
                    .unwrap_or_default();
                paths.sort();
                for f in paths {
                    if let Ok(data) = std::fs::read(&f) {
                        let _ = crate::fuzzing::one_input(&target, &prop, &data, &mut acc);
                    }
                }
                acc.samples.truncate(3);
                std::fs::write(&out, serde_json::to_vec(&acc).unwrap()).expect("write census");
            });
        }
        "__replays" => {
            // vcheck __replays <ID> <out>
            let p = props::find(&args[2]).expect("prop");
            let out = PathBuf::from(&args[3]);
            child_replays(&p, &out);
        }
        _ => usage(),
    }
}

// ------------------------------------------------------------------------------------------------
// children
// ------------------------------------------------------------------------------------------------

fn run_on_big_stack<T: Send + 'static>(f: impl FnOnce() -> T + Send + 'static) -> T {
    // 8 MiB: the Linux main-thread default, so a native stack overflow seen here is one a real
    // caller would see.
    std::thread::Builder::new()
        .stack_size(8 << 20)
        .spawn(f)
        .expect("spawn")
        .join()
        .unwrap_or_else(|_| {
            eprintln!("harness: worker thread panicked");
            std::process::exit(3)
        })
}

fn child_shard(p: &PropDef, tier: Tier, seed: u64, shard: usize, out: &PathBuf) {
    let known = KnownFindings::load();
    let prop_id = p.id;
    let run = p.run_shard;
    let inflight = out.with_extension("inflight");
    let out = out.clone();
    run_on_big_stack(move || {
        let ctx = ShardCtx {
            prop: prop_id,
            tier,
            seed,
            shard,
            known: &known,
            inflight: Some(inflight),
        };
        let mut acc = Acc::new();
        run(&ctx, &mut acc);
        std::fs::write(&out, serde_json::to_vec(&acc).unwrap()).expect("write shard result");
    });
}

fn child_replays(p: &PropDef, out: &PathBuf) {
    let replay = p.replay;
    let prop_id = p.id;
    let out = out.clone();
    let inflight = out.with_extension("inflight");
    run_on_big_stack(move || {
        let mut results: Vec<(String, Option<Violation>)> = vec![];
        for (path, rf) in committed_replays(prop_id) {
            let _ = std::fs::write(&inflight, path.display().to_string());
            let mut acc = Acc::new();
            let r = match replay(&rf.case, &mut acc) {
                CaseResult::Pass => None,
                CaseResult::Fail(v) => Some(v),
            };
            results.push((path.display().to_string(), r));
        }
        std::fs::write(&out, serde_json::to_vec(&results).unwrap()).expect("write replay result");
    });
}

// ------------------------------------------------------------------------------------------------
// parent
// ------------------------------------------------------------------------------------------------

struct Child {
    shard: usize,
    out:   PathBuf,
    proc:  std::process::Child,
    attempt: u32,
}

fn spawn_shard(p: &PropDef, tier: Tier, seed: u64, shard: usize, attempt: u32) -> Child {
    let out = work_dir(p.id).join(format!("shard{shard}.json"));
    let _ = std::fs::remove_file(&out);
    let _ = std::fs::remove_file(out.with_extension("inflight"));
    let exe = std::env::current_exe().expect("exe");
    let proc = Command::new(exe)
        .args([
            "__shard",
            p.id,
            tier.name(),
            // a crashed shard is restarted on a different stream so that the search continues
            &(seed.wrapping_add(attempt as u64 * 0x1000_0000_0000)).to_string(),
            &shard.to_string(),
            out.to_str().unwrap(),
        ])
        .stdin(Stdio::null())
        .stderr(
            std::fs::File::create(out.with_extension("stderr"))
                .map(Stdio::from)
                .unwrap_or_else(|_| Stdio::inherit()),
        )
        .spawn()
        .expect("spawn child");
    Child {
        shard,
        out,
        proc,
        attempt,
    }
}

fn run_parent(p: &PropDef, tier: Tier, seed: u64) -> i32 {
    let start = Instant::now();
    let known = KnownFindings::load();
    let guard_limit = Duration::from_secs(tier.pick(40 * 60, 6 * 3600));
    let mut total = Acc::new();
    let mut exit_inconclusive: Vec<String> = vec![];
    let mut violations: Vec<(Violation, PathBuf)> = vec![];
    let mut known_lines: BTreeMap<String, String> = BTreeMap::new();
    let mut replays_run = 0usize;

    // ---- replay tier -------------------------------------------------------------------------
    {
        let out = work_dir(p.id).join("replays.json");
        let _ = std::fs::remove_file(&out);
        let exe = std::env::current_exe().expect("exe");
        let status = Command::new(exe)
            .args(["__replays", p.id, out.to_str().unwrap()])
            .stdin(Stdio::null())
            .status()
            .expect("spawn replays");
        if !status.success() {
            let inflight = std::fs::read_to_string(out.with_extension("inflight")).unwrap_or_default();
            // a replay file that takes the process down is a violation of that file's property
            // (only C01 has such files); attribute to the file
            let v = Violation::new(
                format!("process died during replay ({status})"),
                format!("replay of {inflight} killed the process"),
                json!({ "replay_file": inflight }),
            );
            violations.push((v, PathBuf::from(inflight)));
        } else {
            let results: Vec<(String, Option<Violation>)> =
                serde_json::from_slice(&std::fs::read(&out).unwrap_or_default()).unwrap_or_default();
            replays_run = results.len();
            for (path, r) in results {
                if let Some(v) = r {
                    match known.lookup(p.id, &v.signature) {
                        Some(k) => {
                            known_lines.insert(k.signature.clone(), k.what.clone());
                            *total.known.entry(v.signature.clone()).or_default() += 1;
                        }
                        None => violations.push((v, PathBuf::from(path))),
                    }
                }
            }
        }
    }

    // ---- search tier -------------------------------------------------------------------------
    // VCHECK_ONLY_FUZZ=1 (debugging the fuzz stage): no proptest search, no health check, no evidence
    let only_fuzz = std::env::var("VCHECK_ONLY_FUZZ").is_ok();
    let mut running: Vec<Child> =
        if only_fuzz { vec![] } else { (0..SHARDS).map(|k| spawn_shard(p, tier, seed, k, 0)).collect() };
    let mut crashes = 0u32;
    while !running.is_empty() {
        let mut still = vec![];
        for mut c in running.drain(..) {
            match c.proc.try_wait() {
                Ok(Some(status)) => {
                    if status.success() {
                        match std::fs::read(&c.out).ok().and_then(|b| serde_json::from_slice::<Acc>(&b).ok()) {
                            Some(acc) => total.merge(acc),
                            None => exit_inconclusive.push(format!("shard {} wrote no result", c.shard)),
                        }
                    } else if status.code() == Some(3) || status.code() == Some(101) {
                        let err = std::fs::read_to_string(c.out.with_extension("stderr")).unwrap_or_default();
                        let tail: Vec<&str> = err.lines().rev().take(6).collect();
                        exit_inconclusive.push(format!(
                            "shard {} failed inside the harness ({status}): {}",
                            c.shard,
                            tail.into_iter().rev().collect::<Vec<_>>().join(" | ")
                        ));
                    } else {
                        // killed by a signal (native stack overflow, abort): the case in flight is the culprit
                        crashes += 1;
                        let choices: Vec<u32> = std::fs::read(c.out.with_extension("inflight"))
                            .unwrap_or_default()
                            .chunks_exact(4)
                            .map(|b| u32::from_le_bytes([b[0], b[1], b[2], b[3]]))
                            .collect();
                        let case = match p.describe {
                            Some(d) => d("main", &choices),
                            None => json!({ "choices": choices }),
                        };
                        let v = Violation::new(
                            format!("process died ({status})"),
                            "the analysing process was killed (native stack overflow or abort) while running this case",
                            case,
                        );
                        // C14 and C15 work on judgement sets that no bytecode can produce (fixed arrays,
                        // arbitrary spans), so a death there cannot be handed to C01: it is their own
                        if p.id == "C01" || (matches!(p.id, "C14" | "C15") && p.describe.is_some()) {
                            let path = save_found(p.id, &v);
                            violations.push((v, path));
                        } else {
                            // owned by C01: count, keep the input for C01's replay, go on
                            total.excluded("excluded_c01_crash");
                            let path = save_found("C01", &v);
                            total.note(format!("process death attributed to C01; input saved to {}", path.display()));
                        }
                        if c.attempt < 3 {
                            still.push(spawn_shard(p, tier, seed, c.shard, c.attempt + 1));
                        } else {
                            exit_inconclusive.push(format!("shard {} crashed repeatedly", c.shard));
                        }
                    }
                }
                Ok(None) => still.push(c),
                Err(e) => exit_inconclusive.push(format!("wait failed: {e}")),
            }
        }
        running = still;
        if start.elapsed() > guard_limit {
            for mut c in running.drain(..) {
                let _ = c.proc.kill();
            }
            exit_inconclusive.push("wall-clock guard hit (inconclusive, not a violation)".into());
        }
        if !running.is_empty() {
            std::thread::sleep(Duration::from_millis(20));
        }
    }

    // ---- coverage-guided stage (thorough tier, or VCHECK_FUZZ_SECS set) ---------------------------
    let fuzz_secs: u64 = std::env::var("VCHECK_FUZZ_SECS")
        .ok()
        .and_then(|s| s.trim().parse().ok())
        .unwrap_or(match tier {
            Tier::Quick => 0,
            Tier::Thorough => 240,
        });
    let mut fuzz_report = json!(null);
    if fuzz_secs > 0 {
        let fs = fuzz_stage(p, seed, fuzz_secs, &known);
        fuzz_report = fs.report;
        exit_inconclusive.extend(fs.inconclusive);
        for n in fs.notes {
            total.note(n);
        }
        for _ in 0..fs.crashes_owned_by_c01 {
            total.excluded("excluded_c01_crash");
        }
        violations.extend(fs.violations);
    }

    // ---- triage of what the shards found ------------------------------------------------------
    let mut seen_sigs = std::collections::HashSet::new();
    for v in std::mem::take(&mut total.violations) {
        if let Some(k) = known.lookup(p.id, &v.signature) {
            known_lines.insert(k.signature.clone(), k.what.clone());
            continue;
        }
        if !seen_sigs.insert(v.signature.clone()) {
            continue;
        }
        let path = save_found(p.id, &v);
        violations.push((v, path));
    }
    for (sig, _) in total.known.clone() {
        if let Some(k) = known.lookup(p.id, &sig) {
            known_lines.insert(k.signature.clone(), k.what.clone());
        }
    }

    // ---- generator health ----------------------------------------------------------------------
    let health = if only_fuzz { vec![] } else { (p.health)(&total, tier) };
    for h in &health {
        exit_inconclusive.push(format!("generator health: {h}"));
    }

    // one line per signature (a committed replay file, the search and the fuzz stage may all meet it)
    {
        let mut seen = std::collections::HashSet::new();
        violations.retain(|(v, _)| seen.insert(v.signature.clone()));
    }

    // ---- report --------------------------------------------------------------------------------
    for (sig, what) in &known_lines {
        println!("KNOWN-FINDING: property={} {} [{}]", p.id, what, sig);
    }
    for (v, path) in &violations {
        println!("VIOLATION property={} replay={}", p.id, path.display());
        println!("  signature: {}", v.signature);
        println!("  detail: {}", v.detail.lines().next().unwrap_or(""));
    }
    let wall = start.elapsed().as_secs_f64();
    if total.samples.is_empty() {
        total.samples.push(json!("(no sample recorded)"));
    }
    let extra = json!({
        "replay_files_rerun": replays_run,
        "process_deaths": crashes,
        "shards": SHARDS,
        "inconclusive": exit_inconclusive,
        "new_violation_signatures": violations.iter().map(|(v, _)| v.signature.clone()).collect::<Vec<_>>(),
        "fuzz": fuzz_report,
    });
    if only_fuzz {
        println!("(VCHECK_ONLY_FUZZ: evidence not written) {}", fuzz_report);
        return if violations.is_empty() { 0 } else { 1 };
    }
    write_evidence(
        &EvidenceSpec {
            prop: p.id,
            tier,
            seed,
            level: p.level,
            rule: p.rule,
            assumptions: p.assumptions.iter().map(|s| s.to_string()).collect(),
            exhaustive: p.exhaustive,
            wall_s: wall,
            violations: violations.len(),
            extra,
        },
        &total,
    );
    println!(
        "{} {}: {} cases, {} distinct, {} distinct non-trivial, {} known-finding hits, {} violations, {:.1}s",
        p.id,
        tier.name(),
        total.evaluations,
        total.distinct.len(),
        total.nontrivial.len(),
        total.known.values().sum::<u64>(),
        violations.len(),
        wall
    );
    if !violations.is_empty() {
        1
    } else if !exit_inconclusive.is_empty() {
        for m in &exit_inconclusive {
            println!("INCONCLUSIVE: {m}");
        }
        2
    } else {
        0
    }
}

fn replay_one(p: &PropDef, path: &PathBuf) -> i32 {
    let known = KnownFindings::load();
    let Some(rf) = std::fs::read_to_string(path)
        .ok()
        .and_then(|s| serde_json::from_str::<core::ReplayFile>(&s).ok())
    else {
        eprintln!("cannot read replay file {}", path.display());
        return 2;
    };
    let replay = p.replay;
    let case: Value = rf.case.clone();
    let r = run_on_big_stack(move || {
        let mut acc = Acc::new();
        match replay(&case, &mut acc) {
            CaseResult::Pass => None,
            CaseResult::Fail(v) => Some(v),
        }
    });
    match r {
        None => {
            println!("replay {}: property held", path.display());
            0
        }
        Some(v) => {
            if let Some(k) = known.lookup(p.id, &v.signature) {
                println!("KNOWN-FINDING: property={} {} [{}]", p.id, k.what, k.signature);
                0
            } else {
                println!("VIOLATION property={} replay={}", p.id, path.display());
                println!("  signature: {}", v.signature);
                println!("  detail: {}", v.detail);
                1
            }
        }
    }
}

// ------------------------------------------------------------------------------------------------
// coverage-guided stage: libFuzzer targets of /verif/fuzz (see harness/src/fuzzing.rs)
// ------------------------------------------------------------------------------------------------

struct FuzzStage {
    report: Value,
    inconclusive: Vec<String>,
    notes: Vec<String>,
    violations: Vec<(Violation, PathBuf)>,
    crashes_owned_by_c01: u32,
}

fn list_files(dir: &PathBuf) -> Vec<PathBuf> {
    let mut v: Vec<PathBuf> = std::fs::read_dir(dir)
        .map(|rd| rd.filter_map(|e| e.ok()).map(|e| e.path()).filter(|p| p.is_file()).collect())
        .unwrap_or_default();
    v.sort();
    v
}

fn fuzz_seed_inputs(p: &PropDef, target: &str, seed: u64, dir: &PathBuf) -> usize {
    let mut n = 0usize;
    let mut put = |bytes: &[u8]| {
        let _ = std::fs::write(dir.join(format!("seed{n:04}")), bytes);
        n += 1;
    };
    let random = |tag: u64, len: usize| -> Vec<u8> {
        (0..len.div_ceil(8))
            .flat_map(|i| core::mix(seed, &format!("fuzz-seed/{}/{target}", p.id), tag, i as u64).to_le_bytes())
            .take(len)
            .collect()
    };
    match target {
        "fz_c10" | "fz_c01" => {
            let prefix = if target == "fz_c01" { 32 } else { 0 };
            for (i, (_, code)) in crate::corpus::corpus().iter().enumerate() {
                // the head of each real contract and a window from its middle
                for (j, start) in [0usize, code.len() / 2].into_iter().enumerate() {
                    let end = (start + 1_500).min(code.len());
                    let mut b = random((i * 2 + j) as u64, prefix);
                    b.extend_from_slice(&code[start..end]);
                    put(&b);
                }
            }
            for (i, len) in [1usize, 2, 33, 40, 64, 200, 1_000].into_iter().enumerate() {
                put(&random(10_000 + i as u64, len + prefix));
            }
        }
        _ => {
            let streams = crate::fuzzing::streams(p.id).max(1);
            for k in 0..streams {
                for (i, len) in [8usize, 32, 64, 128, 256, 512, 1_024, 2_048, 4_000].into_iter().enumerate() {
                    for r in 0..3u64 {
                        let mut b = vec![k as u8];
                        b.extend(random((k as u64) << 32 | (i as u64) << 8 | r, len));
                        put(&b);
                    }
                }
            }
        }
    }
    n
}

fn fuzz_stage(p: &PropDef, seed: u64, secs: u64, known: &KnownFindings) -> FuzzStage {
    let mut st = FuzzStage {
        report: json!([]),
        inconclusive: vec![],
        notes: vec![],
        violations: vec![],
        crashes_owned_by_c01: 0,
    };
    let targets = crate::fuzzing::targets_for(p.id);
    if targets.is_empty() {
        st.report = json!(match p.id {
            "C13" => "not fuzzed: one case is thousands of analyses (every stop index), seconds per input under coverage instrumentation",
            _ => "not fuzzed: complete enumeration, no generated stream to mutate",
        });
        return st;
    }
    let root = verif_root();
    let base = root.join("work").join("fuzz").join(p.id);
    let _ = std::fs::remove_dir_all(&base);
    let _ = std::fs::create_dir_all(&base);
    // ---- build (nightly, sanitizer coverage; debug assertions and overflow checks on) ------------
    let build_log = base.join("build.log");
    let built = Command::new("cargo")
        // no AddressSanitizer: the subject has no unsafe memory operations and the oracle, not a memory
        // error, is what a target waits for; without it the targets run about 3.5x faster
        .args(["+nightly", "fuzz", "build", "--sanitizer", "none", "--fuzz-dir"])
        .arg(root.join("fuzz"))
        .current_dir(root.join("harness"))
        .env("CARGO_NET_OFFLINE", "true")
        .stdin(Stdio::null())
        .stdout(Stdio::null())
        .stderr(std::fs::File::create(&build_log).map(Stdio::from).unwrap_or_else(|_| Stdio::null()))
        .status()
        .map(|s| s.success())
        .unwrap_or(false);
    if !built {
        println!("NOTE: the libFuzzer targets did not build (see {}); coverage-guided stage skipped", build_log.display());
        st.report = json!({ "status": "fuzz targets did not build; stage skipped" });
        return st;
    }
    let bin_dir = root.join("fuzz").join("target").join("x86_64-unknown-linux-gnu").join("release");
    let found_dir = root.join("work").join("found").join(p.id);
    let per_target = (secs / targets.len() as u64).max(5);
    let mut reports = vec![];
    for (target, max_len) in targets {
        let dir = base.join(target);
        let (corpus, seeds, artifacts) = (dir.join("corpus"), dir.join("seeds"), dir.join("artifacts"));
        for d in [&corpus, &seeds, &artifacts] {
            let _ = std::fs::create_dir_all(d);
        }
        let n_seeds = fuzz_seed_inputs(p, target, seed, &seeds);
        let found_before: std::collections::BTreeSet<PathBuf> = list_files(&found_dir).into_iter().collect();
        let log = dir.join("fuzz.log");
        let t0 = Instant::now();
        use std::os::unix::process::CommandExt;
        let child = Command::new(bin_dir.join(target))
            .process_group(0)
            .arg(&corpus)
            .arg(&seeds)
            .args([
                format!("-max_total_time={per_target}"),
                format!("-seed={}", (seed as u32).max(1)),
                "-len_control=0".to_string(),
                format!("-max_len={max_len}"),
                format!("-fork={SHARDS}"),
                // fork mode goes on past timeouts and out-of-memory inputs; they are counted, not judged
                // (halting is C03's, with counting budgets)
                "-timeout=30".to_string(),
                "-rss_limit_mb=6000".to_string(),
                format!("-artifact_prefix={}/", artifacts.display()),
            ])
            .env("VCHECK_FUZZ_PROP", p.id)
            .env("VERIF_ROOT", &root)
            // libFuzzer's fork mode keeps its job files in the temporary directory: keep them out of /tmp
            .env("TMPDIR", {
                let t = dir.join("tmp");
                let _ = std::fs::create_dir_all(&t);
                t
            })
            .current_dir(&dir)
            .stdin(Stdio::null())
            .stdout(Stdio::null())
            .stderr(std::fs::File::create(&log).map(Stdio::from).unwrap_or_else(|_| Stdio::null()))
            .spawn();
        // libFuzzer waits for its last jobs after the budget; a straggler is cut off (whole process group)
        let mut cut_off = false;
        let status = child.and_then(|mut c| loop {
            match c.try_wait()? {
                Some(s) => break Ok(s),
                None if t0.elapsed().as_secs() > per_target + 90 => {
                    cut_off = true;
                    let _ = Command::new("kill").args(["-KILL", "--", &format!("-{}", c.id())]).status();
                    break c.wait();
                }
                None => std::thread::sleep(Duration::from_millis(200)),
            }
        });
        let wall = t0.elapsed().as_secs_f64();
        let text = String::from_utf8_lossy(&std::fs::read(&log).unwrap_or_default()).to_string();
        // "#123456: cov: 2437 ft: 8841 corp: 1213 exec/s 5242 oom/timeout/crash: 0/0/0 time: 61s job: 24 dft_time: 0"
        let mut stats = (0u64, 0u64, 0u64, 0u64);
        let mut slow = String::new();
        for line in text.lines() {
            if let Some(rest) = line.strip_prefix('#') {
                let num = |key: &str| -> Option<u64> {
                    let i = rest.find(key)? + key.len();
                    rest[i..].trim_start().split(|c: char| !c.is_ascii_digit()).next()?.parse().ok()
                };
                if let (Some(execs), Some(cov), Some(ft), Some(corp)) = (
                    rest.split(':').next().and_then(|s| s.trim().parse::<u64>().ok()),
                    num("cov:"),
                    num("ft:"),
                    num("corp:"),
                ) {
                    stats = (execs, cov, ft, corp);
                    if let Some(i) = rest.find("oom/timeout/crash:") {
                        slow = rest[i + 18..].trim().split(' ').next().unwrap_or("").to_string();
                    }
                }
            }
        }
        // ---- what it found ----------------------------------------------------------------------
        let mut target_violations = 0usize;
        let found_new: Vec<PathBuf> = list_files(&found_dir).into_iter().filter(|f| !found_before.contains(f)).collect();
        for f in &found_new {
            // re-check the saved case through the property's replay, outside the fuzzer
            let out = Command::new(std::env::current_exe().expect("exe"))
                .args(["replay", p.id])
                .arg(f)
                .stdin(Stdio::null())
                .output();
            let rf = std::fs::read_to_string(f).ok().and_then(|s| serde_json::from_str::<core::ReplayFile>(&s).ok());
            match (out, rf) {
                (Ok(o), Some(rf)) => {
                    let confirmed = o.status.code() == Some(1) || (o.status.code().is_none() && matches!(p.id, "C01" | "C14" | "C15"));
                    if confirmed {
                        if !st.violations.iter().any(|(v, _)| v.signature == rf.signature) {
                            st.violations.push((Violation::new(rf.signature, rf.detail, rf.case), f.clone()));
                            target_violations += 1;
                        }
                    } else if o.status.code() == Some(0) {
                        st.notes.push(format!(
                            "fuzz target {target} saved {} but the case passes (or is a known finding) in replay",
                            f.display()
                        ));
                    } else {
                        st.inconclusive.push(format!("replay of fuzz finding {} ended with {}", f.display(), o.status));
                    }
                }
                _ => st.inconclusive.push(format!("cannot re-check fuzz finding {}", f.display())),
            }
        }
        let arts = list_files(&artifacts);
        let mut art_names = vec![];
        for a in &arts {
            let name = a.file_name().unwrap().to_string_lossy().to_string();
            art_names.push(name.clone());
            if name.starts_with("timeout-") || name.starts_with("oom-") || name.starts_with("slow-unit-") {
                continue; // resource limits under instrumentation: counted in the report, never judged
            }
            if !found_new.is_empty() {
                continue; // the crash is the abort after saving the finding
            }
            // a crash without a saved finding: run the input once more outside the fuzzer
            let out = Command::new(std::env::current_exe().expect("exe"))
                .args(["__fuzzone", target, p.id])
                .arg(a)
                .stdin(Stdio::null())
                .stderr(Stdio::null())
                .output();
            match out {
                Ok(o) if o.status.code() == Some(0) => {
                    st.notes.push(format!("fuzz target {target}: crash input {name} passes outside the fuzzer"))
                }
                Ok(o) if o.status.code() == Some(1) => {
                    let f = PathBuf::from(String::from_utf8_lossy(&o.stdout).trim().to_string());
                    if let Some(rf) = std::fs::read_to_string(&f).ok().and_then(|s| serde_json::from_str::<core::ReplayFile>(&s).ok()) {
                        st.violations.push((Violation::new(rf.signature, rf.detail, rf.case), f));
                        target_violations += 1;
                    }
                }
                Ok(o) if o.status.code().is_none() => {
                    // killed by a signal: the analysing process died on this input
                    let data = std::fs::read(a).unwrap_or_default();
                    let v = Violation::new(
                        format!("process died ({})", o.status),
                        "the analysing process was killed (native stack overflow or abort) while running this fuzzer input",
                        json!({ "fuzz_target": target, "fuzz_prop": p.id, "fuzz_input_hex": hex::encode(&data) }),
                    );
                    let path = save_found("C01", &v);
                    if p.id == "C01" {
                        st.violations.push((v, path));
                        target_violations += 1;
                    } else {
                        st.crashes_owned_by_c01 += 1;
                        st.notes.push(format!("process death attributed to C01; input saved to {}", path.display()));
                    }
                }
                Ok(o) => st.inconclusive.push(format!("fuzz target {target}: crash input {name} fails inside the harness ({})", o.status)),
                Err(e) => st.inconclusive.push(format!("fuzz target {target}: cannot re-run {name}: {e}")),
            }
        }
        if stats.0 == 0 && found_new.is_empty() {
            // seen once in a background sweep (C19, 1 s, no output): the stage then adds nothing, say so
            st.notes.push(format!("fuzz target {target} reported no executions (see {}): the coverage-guided stage added nothing to this run", log.display()));
        }
        if cut_off {
            st.notes.push(format!("fuzz target {target}: last jobs cut off {}s after the budget", 90));
        } else if let Ok(s) = &status {
            if !s.success() && found_new.is_empty() && arts.is_empty() {
                st.inconclusive.push(format!("fuzz target {target} exited with {s} without an artifact (see {})", log.display()));
            }
        } else {
            st.inconclusive.push(format!("fuzz target {target} could not be started"));
        }
        // ---- census of the final corpus (coverage-distinct inputs) through the same classifier ---
        let census_out = dir.join("census.json");
        let _ = Command::new(std::env::current_exe().expect("exe"))
            .args(["__fuzzcensus", target, p.id])
            .arg(&corpus)
            .arg(&census_out)
            .stdin(Stdio::null())
            .stderr(Stdio::null())
            .status();
        let census: Option<Acc> = std::fs::read(&census_out).ok().and_then(|b| serde_json::from_slice(&b).ok());
        let census_json = match &census {
            Some(a) => json!({
                "corpus_inputs_rerun": a.evaluations,
                "distinct_cases": a.distinct.len(),
                "distinct_nontrivial": a.nontrivial.len(),
                "labels": a.labels,
                "samples": a.samples,
            }),
            None => json!("census failed"),
        };
        reports.push(json!({
            "target": target,
            "engine": "libFuzzer (cargo-fuzz build, -fork)",
            "seconds": (wall * 10.0).round() / 10.0,
            "budget_s": per_target,
            "seed_inputs": n_seeds,
            "executions": stats.0,
            "coverage_edges": stats.1,
            "features": stats.2,
            "corpus_units": stats.3,
            "artifacts": art_names,
            "oom_timeout_crash_jobs": slow,
            "new_violations": target_violations,
            "final_corpus_census": census_json,
        }));
        println!(
            "{} fuzz {}: {} executions, cov {} edges, {} features, corpus {}, {} new violations, {:.0}s",
            p.id, target, stats.0, stats.1, stats.2, stats.3, target_violations, wall
        );
        let _ = known;
    }
    st.report = Value::Array(reports);
    st
}

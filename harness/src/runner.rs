//! Parent-side orchestration: replay tier, sharded child processes, merging, reporting.

use crate::{
    core::{
        self, committed_replays, save_found, verif_root, write_evidence, Acc, CaseResult, EvidenceSpec, KnownFindings,
        ShardCtx, Tier, Violation, SHARDS,
    },
    props::{self, PropDef},
};
use serde_json::{json, Value};
use std::{
    collections::BTreeMap,
    path::PathBuf,
    process::{Command, Stdio},
    time::{Duration, Instant},
};

fn usage() -> ! {
    eprintln!(
        "usage: vcheck run <ID> <quick|thorough> | vcheck replay <ID> <file> | vcheck selftest | vcheck list\n\
         env: VERIF_SEED=<int>"
    );
    std::process::exit(2)
}

pub fn seed_from_env() -> u64 {
    std::env::var("VERIF_SEED")
        .ok()
        .and_then(|s| s.trim().parse::<i128>().ok())
        .map(|v| v as u64)
        .unwrap_or(1)
}

fn work_dir(prop: &str) -> PathBuf {
    let d = verif_root().join("work").join("run").join(prop);
    let _ = std::fs::create_dir_all(&d);
    d
}

pub fn main() {
    core::install_panic_hook();
    let args: Vec<String> = std::env::args().collect();
    if args.len() < 2 {
        usage();
    }
    match args[1].as_str() {
        "list" => {
            for p in props::all() {
                println!("{}", p.id);
            }
        }
        "selftest" => crate::selftest::main(&args[2..]),
        "bench" => {
            let code = hex::decode("6001600055").unwrap();
            let cfg = crate::subj::VmCfg::default();
            let t = std::time::Instant::now();
            for _ in 0..200 {
                let _ = crate::subj::analyze(&code, &cfg, true, crate::subj::lazy());
            }
            println!("fast tc config: {:?} per analysis (valid={})", t.elapsed() / 200, crate::subj::fast_config_valid());
            let t = std::time::Instant::now();
            for _ in 0..50 {
                let _ = crate::subj::analyze(&code, &cfg, false, crate::subj::lazy());
            }
            println!("default tc config: {:?} per analysis", t.elapsed() / 50);
            let t = std::time::Instant::now();
            for _ in 0..200 {
                let _ = crate::subj::tc_config(true);
            }
            println!("tc_config(true): {:?}", t.elapsed() / 200);
        }
        "values" => {
            // vcheck values <hex>: print every collected value of every state
            let code = hex::decode(args[2].trim_start_matches("0x")).expect("hex");
            let cfg = crate::subj::VmCfg { permissive: true, ..Default::default() };
            let run = crate::subj::run_vm(&code, &cfg, crate::subj::lazy()).expect("run");
            println!("errors: {:?}", run.errors);
            for (i, s) in run.states.iter().enumerate() {
                println!("-- state {i} (fork point {})", s.fork_point());
                for v in s.clone().all_values() {
                    println!("   {v}");
                }
            }
        }
        "analyze" => {
            // vcheck analyze <hex> [permissive]
            let code = hex::decode(args[2].trim_start_matches("0x")).expect("hex");
            let cfg = crate::subj::VmCfg {
                permissive: args.get(3).map(|s| s == "permissive").unwrap_or(false),
                ..Default::default()
            };
            println!("{}", crate::asm::disasm(&code));
            match crate::subj::analyze(&code, &cfg, false, crate::subj::lazy()) {
                Ok(l) => {
                    for s in l.slots() {
                        println!("{}", serde_json::to_string(s).unwrap());
                    }
                }
                Err(e) => println!("ERR {:?}", crate::subj::error_kinds(&e)),
            }
        }
        "run" => {
            if args.len() < 4 {
                usage();
            }
            let tier = match args[3].as_str() {
                "quick" => Tier::Quick,
                "thorough" => Tier::Thorough,
                _ => usage(),
            };
            let Some(p) = props::find(&args[2]) else { usage() };
            std::process::exit(run_parent(&p, tier, seed_from_env()));
        }
        "replay" => {
            if args.len() < 4 {
                usage();
            }
            let Some(p) = props::find(&args[2]) else { usage() };
            std::process::exit(replay_one(&p, &PathBuf::from(&args[3])));
        }
        "__shard" => {
            // vcheck __shard <ID> <tier> <seed> <shard> <out>
            let p = props::find(&args[2]).expect("prop");
            let tier = if args[3] == "quick" { Tier::Quick } else { Tier::Thorough };
            let seed: u64 = args[4].parse().unwrap();
            let shard: usize = args[5].parse().unwrap();
            let out = PathBuf::from(&args[6]);
            child_shard(&p, tier, seed, shard, &out);
        }
        "__replays" => {
            // vcheck __replays <ID> <out>
            let p = props::find(&args[2]).expect("prop");
            let out = PathBuf::from(&args[3]);
            child_replays(&p, &out);
        }
        _ => usage(),
    }
}

// ------------------------------------------------------------------------------------------------
// children
// ------------------------------------------------------------------------------------------------

fn run_on_big_stack<T: Send + 'static>(f: impl FnOnce() -> T + Send + 'static) -> T {
    // 8 MiB: the Linux main-thread default, so a native stack overflow seen here is one a real
    // caller would see.
    std::thread::Builder::new()
        .stack_size(8 << 20)
        .spawn(f)
        .expect("spawn")
        .join()
        .unwrap_or_else(|_| {
            eprintln!("harness: worker thread panicked");
            std::process::exit(3)
        })
}

fn child_shard(p: &PropDef, tier: Tier, seed: u64, shard: usize, out: &PathBuf) {
    let known = KnownFindings::load();
    let prop_id = p.id;
    let run = p.run_shard;
    let inflight = out.with_extension("inflight");
    let out = out.clone();
    run_on_big_stack(move || {
        let ctx = ShardCtx {
            prop: prop_id,
            tier,
            seed,
            shard,
            known: &known,
            inflight: Some(inflight),
        };
        let mut acc = Acc::new();
        run(&ctx, &mut acc);
        std::fs::write(&out, serde_json::to_vec(&acc).unwrap()).expect("write shard result");
    });
}

fn child_replays(p: &PropDef, out: &PathBuf) {
    let replay = p.replay;
    let prop_id = p.id;
    let out = out.clone();
    let inflight = out.with_extension("inflight");
    run_on_big_stack(move || {
        let mut results: Vec<(String, Option<Violation>)> = vec![];
        for (path, rf) in committed_replays(prop_id) {
            let _ = std::fs::write(&inflight, path.display().to_string());
            let mut acc = Acc::new();
            let r = match replay(&rf.case, &mut acc) {
                CaseResult::Pass => None,
                CaseResult::Fail(v) => Some(v),
            };
            results.push((path.display().to_string(), r));
        }
        std::fs::write(&out, serde_json::to_vec(&results).unwrap()).expect("write replay result");
    });
}

// ------------------------------------------------------------------------------------------------
// parent
// ------------------------------------------------------------------------------------------------

struct Child {
    shard: usize,
    out:   PathBuf,
    proc:  std::process::Child,
    attempt: u32,
}

fn spawn_shard(p: &PropDef, tier: Tier, seed: u64, shard: usize, attempt: u32) -> Child {
    let out = work_dir(p.id).join(format!("shard{shard}.json"));
    let _ = std::fs::remove_file(&out);
    let _ = std::fs::remove_file(out.with_extension("inflight"));
    let exe = std::env::current_exe().expect("exe");
    let proc = Command::new(exe)
        .args([
            "__shard",
            p.id,
            tier.name(),
            // a crashed shard is restarted on a different stream so that the search continues
            &(seed.wrapping_add(attempt as u64 * 0x1000_0000_0000)).to_string(),
            &shard.to_string(),
            out.to_str().unwrap(),
        ])
        .stdin(Stdio::null())
        .stderr(
            std::fs::File::create(out.with_extension("stderr"))
                .map(Stdio::from)
                .unwrap_or_else(|_| Stdio::inherit()),
        )
        .spawn()
        .expect("spawn child");
    Child {
        shard,
        out,
        proc,
        attempt,
    }
}

fn run_parent(p: &PropDef, tier: Tier, seed: u64) -> i32 {
    let start = Instant::now();
    let known = KnownFindings::load();
    let guard_limit = Duration::from_secs(tier.pick(40 * 60, 6 * 3600));
    let mut total = Acc::new();
    let mut exit_inconclusive: Vec<String> = vec![];
    let mut violations: Vec<(Violation, PathBuf)> = vec![];
    let mut known_lines: BTreeMap<String, String> = BTreeMap::new();
    let mut replays_run = 0usize;

    // ---- replay tier -------------------------------------------------------------------------
    {
        let out = work_dir(p.id).join("replays.json");
        let _ = std::fs::remove_file(&out);
        let exe = std::env::current_exe().expect("exe");
        let status = Command::new(exe)
            .args(["__replays", p.id, out.to_str().unwrap()])
            .stdin(Stdio::null())
            .status()
            .expect("spawn replays");
        if !status.success() {
            let inflight = std::fs::read_to_string(out.with_extension("inflight")).unwrap_or_default();
            // a replay file that takes the process down is a violation of that file's property
            // (only C01 has such files); attribute to the file
            let v = Violation::new(
                format!("process died during replay ({status})"),
                format!("replay of {inflight} killed the process"),
                json!({ "replay_file": inflight }),
            );
            violations.push((v, PathBuf::from(inflight)));
        } else {
            let results: Vec<(String, Option<Violation>)> =
                serde_json::from_slice(&std::fs::read(&out).unwrap_or_default()).unwrap_or_default();
            replays_run = results.len();
            for (path, r) in results {
                if let Some(v) = r {
                    match known.lookup(p.id, &v.signature) {
                        Some(k) => {
                            known_lines.insert(k.signature.clone(), k.what.clone());
                            *total.known.entry(v.signature.clone()).or_default() += 1;
                        }
                        None => violations.push((v, PathBuf::from(path))),
                    }
                }
            }
        }
    }

    // ---- search tier -------------------------------------------------------------------------
    let mut running: Vec<Child> = (0..SHARDS).map(|k| spawn_shard(p, tier, seed, k, 0)).collect();
    let mut crashes = 0u32;
    while !running.is_empty() {
        let mut still = vec![];
        for mut c in running.drain(..) {
            match c.proc.try_wait() {
                Ok(Some(status)) => {
                    if status.success() {
                        match std::fs::read(&c.out).ok().and_then(|b| serde_json::from_slice::<Acc>(&b).ok()) {
                            Some(acc) => total.merge(acc),
                            None => exit_inconclusive.push(format!("shard {} wrote no result", c.shard)),
                        }
                    } else if status.code() == Some(3) || status.code() == Some(101) {
                        let err = std::fs::read_to_string(c.out.with_extension("stderr")).unwrap_or_default();
                        let tail: Vec<&str> = err.lines().rev().take(6).collect();
                        exit_inconclusive.push(format!(
                            "shard {} failed inside the harness ({status}): {}",
                            c.shard,
                            tail.into_iter().rev().collect::<Vec<_>>().join(" | ")
                        ));
                    } else {
                        // killed by a signal (native stack overflow, abort): the case in flight is the culprit
                        crashes += 1;
                        let choices: Vec<u32> = std::fs::read(c.out.with_extension("inflight"))
                            .unwrap_or_default()
                            .chunks_exact(4)
                            .map(|b| u32::from_le_bytes([b[0], b[1], b[2], b[3]]))
                            .collect();
                        let case = match p.describe {
                            Some(d) => d("main", &choices),
                            None => json!({ "choices": choices }),
                        };
                        let v = Violation::new(
                            format!("process died ({status})"),
                            "the analysing process was killed (native stack overflow or abort) while running this case",
                            case,
                        );
                        if p.id == "C01" {
                            let path = save_found(p.id, &v);
                            violations.push((v, path));
                        } else {
                            // owned by C01: count, keep the input for C01's replay, go on
                            total.excluded("excluded_c01_crash");
                            let path = save_found("C01", &v);
                            total.note(format!("process death attributed to C01; input saved to {}", path.display()));
                        }
                        if c.attempt < 3 {
                            still.push(spawn_shard(p, tier, seed, c.shard, c.attempt + 1));
                        } else {
                            exit_inconclusive.push(format!("shard {} crashed repeatedly", c.shard));
                        }
                    }
                }
                Ok(None) => still.push(c),
                Err(e) => exit_inconclusive.push(format!("wait failed: {e}")),
            }
        }
        running = still;
        if start.elapsed() > guard_limit {
            for mut c in running.drain(..) {
                let _ = c.proc.kill();
            }
            exit_inconclusive.push("wall-clock guard hit (inconclusive, not a violation)".into());
        }
        if !running.is_empty() {
            std::thread::sleep(Duration::from_millis(20));
        }
    }

    // ---- triage of what the shards found ------------------------------------------------------
    let mut seen_sigs = std::collections::HashSet::new();
    for v in std::mem::take(&mut total.violations) {
        if let Some(k) = known.lookup(p.id, &v.signature) {
            known_lines.insert(k.signature.clone(), k.what.clone());
            continue;
        }
        if !seen_sigs.insert(v.signature.clone()) {
            continue;
        }
        let path = save_found(p.id, &v);
        violations.push((v, path));
    }
    for (sig, _) in total.known.clone() {
        if let Some(k) = known.lookup(p.id, &sig) {
            known_lines.insert(k.signature.clone(), k.what.clone());
        }
    }

    // ---- generator health ----------------------------------------------------------------------
    let health = (p.health)(&total, tier);
    for h in &health {
        exit_inconclusive.push(format!("generator health: {h}"));
    }

    // ---- report --------------------------------------------------------------------------------
    for (sig, what) in &known_lines {
        println!("KNOWN-FINDING: property={} {} [{}]", p.id, what, sig);
    }
    for (v, path) in &violations {
        println!("VIOLATION property={} replay={}", p.id, path.display());
        println!("  signature: {}", v.signature);
        println!("  detail: {}", v.detail.lines().next().unwrap_or(""));
    }
    let wall = start.elapsed().as_secs_f64();
    if total.samples.is_empty() {
        total.samples.push(json!("(no sample recorded)"));
    }
    let extra = json!({
        "replay_files_rerun": replays_run,
        "process_deaths": crashes,
        "shards": SHARDS,
        "inconclusive": exit_inconclusive,
        "new_violation_signatures": violations.iter().map(|(v, _)| v.signature.clone()).collect::<Vec<_>>(),
    });
    write_evidence(
        &EvidenceSpec {
            prop: p.id,
            tier,
            seed,
            level: p.level,
            rule: p.rule,
            assumptions: p.assumptions.iter().map(|s| s.to_string()).collect(),
            exhaustive: p.exhaustive,
            wall_s: wall,
            violations: violations.len(),
            extra,
        },
        &total,
    );
    println!(
        "{} {}: {} cases, {} distinct, {} distinct non-trivial, {} known-finding hits, {} violations, {:.1}s",
        p.id,
        tier.name(),
        total.evaluations,
        total.distinct.len(),
        total.nontrivial.len(),
        total.known.values().sum::<u64>(),
        violations.len(),
        wall
    );
    if !violations.is_empty() {
        1
    } else if !exit_inconclusive.is_empty() {
        for m in &exit_inconclusive {
            println!("INCONCLUSIVE: {m}");
        }
        2
    } else {
        0
    }
}

fn replay_one(p: &PropDef, path: &PathBuf) -> i32 {
    let known = KnownFindings::load();
    let Some(rf) = std::fs::read_to_string(path)
        .ok()
        .and_then(|s| serde_json::from_str::<core::ReplayFile>(&s).ok())
    else {
        eprintln!("cannot read replay file {}", path.display());
        return 2;
    };
    let replay = p.replay;
    let case: Value = rf.case.clone();
    let r = run_on_big_stack(move || {
        let mut acc = Acc::new();
        match replay(&case, &mut acc) {
            CaseResult::Pass => None,
            CaseResult::Fail(v) => Some(v),
        }
    });
    match r {
        None => {
            println!("replay {}: property held", path.display());
            0
        }
        Some(v) => {
            if let Some(k) = known.lookup(p.id, &v.signature) {
                println!("KNOWN-FINDING: property={} {} [{}]", p.id, k.what, k.signature);
                0
            } else {
                println!("VIOLATION property={} replay={}", p.id, path.display());
                println!("  signature: {}", v.signature);
                println!("  detail: {}", v.detail);
                1
            }
        }
    }
}

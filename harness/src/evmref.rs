//! Reference "both-branches" concrete EVM.
//!
//! A concrete interpreter over bytes with its own decoder that forks at every JUMPI regardless of
//! the condition. A word is `Some(value)` (known) or `None` (unknown); "known" propagates through
//! the ALU exactly as constants do. It records, per path: the executed offsets in order, the final
//! stack, the word-aligned memory, the storage write history, the reason the path ended, and the
//! error an EVM would raise.

use crate::{
    decode::{assigned, classify, push_len, stack_io, Kind},
    refword::{keccak_words, W},
};
use std::collections::BTreeMap;

#[derive(Clone, Copy, Debug, PartialEq, Eq)]
pub struct Val {
    pub w:    Option<W>,
    /// produced by a PUSH and only moved (DUP/SWAP/MSTORE/MLOAD) since
    pub lit:  bool,
    /// id of the provenance set: every known word (pushed constant or known intermediate result)
    /// that flowed into this value; 0 is the empty set. See `RefRun::provenance`.
    pub prov: u32,
    /// identity of an unknown word, used only to recognise the same symbolic memory offset again: a
    /// fresh number for every source the subject gives an identity of its own (call data, return
    /// values, loads), a fixed number for the environment words it compares structurally (CALLER,
    /// CALLDATASIZE, ...), and a hash of (operator, operand shapes, operand order) for results, which
    /// mirrors structural equality of the subject's expression trees. 0 for known words.
    pub shape: u64,
}

thread_local! {
    static FRESH: std::cell::Cell<u64> = const { std::cell::Cell::new(1) };
}

fn fresh_shape() -> u64 {
    FRESH.with(|f| {
        let v = f.get();
        f.set(v + 1);
        0x8000_0000_0000_0000 | v
    })
}

fn mix_shape(op: u8, a: u64, b: u64) -> u64 {
    let mut h = 0xcbf2_9ce4_8422_2325u64 ^ (op as u64);
    for x in [a, b] {
        h = (h ^ x).wrapping_mul(0x0000_0100_0000_01b3);
        h ^= h >> 29;
    }
    h | 1
}

fn shape_of(v: &Val) -> u64 {
    match v.w {
        Some(w) => {
            let b = w.to_be_bytes();
            let mut h = 0x9e37_79b9_7f4a_7c15u64;
            for c in b.chunks(8) {
                h = (h ^ u64::from_be_bytes(c.try_into().unwrap())).wrapping_mul(0x0000_0100_0000_01b3);
            }
            h | 1
        }
        None => v.shape,
    }
}

impl Val {
    pub fn k(w: W) -> Val {
        Val { w: Some(w), lit: false, prov: prov_single(w), shape: 0 }
    }
    pub fn lit(w: W) -> Val {
        Val { w: Some(w), lit: true, prov: prov_single(w), shape: 0 }
    }
    pub fn u() -> Val {
        Val { w: None, lit: false, prov: 0, shape: fresh_shape() }
    }
    /// an unknown word the subject compares structurally (an environment opcode without operands)
    pub fn env(op: u8) -> Val {
        Val { w: None, lit: false, prov: 0, shape: mix_shape(op, 0x0e0e, 0) }
    }
    /// a value computed from others: known or not, it carries everything that flowed into it
    pub fn derived(w: Option<W>, from: &[Val]) -> Val {
        let mut p = 0;
        for f in from {
            p = prov_union(p, f.prov);
        }
        if let Some(x) = w {
            p = prov_union(p, prov_single(x));
        }
        Val { w, lit: false, prov: p, shape: if w.is_some() { 0 } else { fresh_shape() } }
    }
}

thread_local! {
    static ARENA: std::cell::RefCell<(Vec<std::collections::BTreeSet<W>>, std::collections::HashMap<std::collections::BTreeSet<W>, u32>)> =
        std::cell::RefCell::new((vec![std::collections::BTreeSet::new()], std::collections::HashMap::new()));
}

thread_local! {
    static PROV_OVERFLOW: std::cell::Cell<bool> = const { std::cell::Cell::new(false) };
}

fn arena_reset() {
    PROV_OVERFLOW.with(|f| f.set(false));
    ARENA.with(|a| {
        let mut a = a.borrow_mut();
        a.0.clear();
        a.0.push(std::collections::BTreeSet::new());
        a.1.clear();
    });
}

fn intern(set: std::collections::BTreeSet<W>) -> u32 {
    if set.is_empty() {
        return 0;
    }
    ARENA.with(|a| {
        let mut a = a.borrow_mut();
        if let Some(id) = a.1.get(&set) {
            return *id;
        }
        let id = a.0.len() as u32;
        a.0.push(set.clone());
        a.1.insert(set, id);
        id
    })
}

fn prov_single(w: W) -> u32 {
    intern(std::collections::BTreeSet::from([w]))
}

fn prov_union(a: u32, b: u32) -> u32 {
    if a == b || b == 0 {
        return a;
    }
    if a == 0 {
        return b;
    }
    let set = ARENA.with(|ar| {
        let ar = ar.borrow();
        let mut s = ar.0[a as usize].clone();
        // bounded; a set that would grow past the bound is flagged so that the run is not used for
        // attribution (see `RefRun::prov_overflow`)
        if s.len() < 256 {
            s.extend(ar.0[b as usize].iter().copied());
        } else {
            PROV_OVERFLOW.with(|f| f.set(true));
        }
        s
    });
    intern(set)
}

#[derive(Clone, Debug, PartialEq, Eq)]
pub enum End {
    Stop,
    Return,
    Revert,
    SelfDestruct,
    /// INVALID or an unassigned byte
    Invalid,
    RanOffEnd,
    /// the jump target is not a known constant: the EVM could go anywhere, the analysis stops
    UnknownJump,
    Error(ErrKind),
    /// the reference's own exploration budget (steps / visits) was hit
    Budget,
    OutOfGas,
}

#[derive(Clone, Copy, Debug, PartialEq, Eq, PartialOrd, Ord, Hash)]
pub enum ErrKind {
    StackUnderflow,
    StackOverflow,
    /// constant target that is not a JUMPDEST instruction (incl. push data)
    JumpNotJumpdest,
    /// constant target beyond the end of the code
    JumpOutOfRange,
    /// JUMP with a non-constant target
    JumpSymbolic,
}

#[derive(Clone, Debug)]
pub struct Path {
    /// every offset whose instruction was reached, in order (EVM view: includes the JUMPDEST a
    /// jump lands on)
    pub executed:       Vec<usize>,
    /// JUMPDEST offsets entered through an unconditional JUMP
    pub landed_by_jump: Vec<usize>,
    pub stack:          Vec<Val>,
    /// exact-offset word stores
    pub mem:            BTreeMap<W, Val>,
    /// word stores at symbolic offsets, by the offset's shape (the subject keys such stores by the
    /// structure of the offset expression and assumes they alias nothing else; so does this)
    pub smem:           BTreeMap<u64, Val>,
    /// memory was written through an instruction the reference does not model exactly
    pub mem_imprecise:  bool,
    /// some value's provenance may be incomplete (a hash over memory the reference does not know)
    pub prov_imprecise: bool,
    pub sstores:        Vec<(Val, Val, usize)>,
    pub sloads:         Vec<(Val, usize)>,
    pub end:            End,
    /// offset of the last instruction reached
    pub end_offset:     usize,
    /// errors raised by JUMPI with a bad target (the path continues by falling through)
    /// (kind, offset, event id): the id is unique per occurrence and shared by the paths that
    /// fork off afterwards
    pub soft_errors:    Vec<(ErrKind, usize, usize)>,
    pub gas:            u64,
    /// offset of the successfully executed instruction after which the cumulative minimum gas
    /// exceeded the limit (the path ends there)
    pub gas_error_at:   Option<usize>,
    /// JUMPI offsets at which this path was created by taking the branch
    pub taken_at:       Vec<usize>,
    pub forks:          usize,
}

pub struct RefCfg<'a> {
    /// minimum gas of the instruction at an offset
    pub gas_of:       &'a dyn Fn(usize) -> u64,
    pub gas_limit:    u64,
    /// a path ends (Budget) when it would reach an offset more often than this
    pub visit_limit:  usize,
    pub max_paths:    usize,
    pub max_steps:    usize,
    /// SELFDESTRUCT ends the path (EVM semantics)
    pub selfdestruct_halts: bool,
}

pub struct RefRun {
    /// provenance sets by id (see `Val::prov`)
    pub prov_sets: Vec<std::collections::BTreeSet<W>>,
    pub paths:    Vec<Path>,
    /// the exploration was cut by max_paths / max_steps
    pub complete: bool,
    pub kinds:    Vec<Kind>,
    /// some provenance set hit its size bound and is incomplete: not to be used for attribution
    pub prov_overflow: bool,
}

#[derive(Clone)]
struct Thread {
    pc:   usize,
    path: Path,
    visits: BTreeMap<usize, usize>,
    mem_unknown_default: bool,
    /// the next instruction is the JUMPDEST an unconditional JUMP landed on: the subject steps past
    /// it without executing (or charging) it
    landed: bool,
}

fn alu2(op: u8, a: Val, b: Val) -> Val {
    let (Some(x), Some(y)) = (a.w, b.w) else {
        let mut v = Val::derived(None, &[a, b]);
        let (sa, sb) = (shape_of(&a), shape_of(&b));
        if sa != 0 && sb != 0 {
            v.shape = mix_shape(op, sa, sb);
        }
        return v;
    };
    Val::derived(Some(match op {
        0x01 => x.add(y),
        0x02 => x.mul(y),
        0x03 => x.sub(y),
        0x04 => x.div(y),
        0x05 => x.sdiv(y),
        0x06 => x.rem(y),
        0x07 => x.smod(y),
        0x0a => x.exp(y),
        0x0b => W::signextend(x, y),
        0x10 => W::from_bool(x.ult(y)),
        0x11 => W::from_bool(x.ugt(y)),
        0x12 => W::from_bool(x.slt(y)),
        0x13 => W::from_bool(x.sgt(y)),
        0x14 => W::from_bool(x == y),
        0x16 => x.and(y),
        0x17 => x.or(y),
        0x18 => x.xor(y),
        0x1a => W::byte(x, y),
        0x1b => y.shl(x),
        0x1c => y.shr(x),
        0x1d => y.sar(x),
        _ => return Val::derived(None, &[a, b]),
    }), &[a, b])
}

pub fn run(code: &[u8], cfg: &RefCfg) -> RefRun {
    arena_reset();
    FRESH.with(|f| f.set(1));
    let kinds = classify(code);
    let mut done: Vec<Path> = vec![];
    let mut queue: Vec<Thread> = vec![Thread {
        pc: 0,
        path: Path {
            executed: vec![],
            landed_by_jump: vec![],
            stack: vec![],
            mem: BTreeMap::new(),
            smem: BTreeMap::new(),
            mem_imprecise: false,
            prov_imprecise: false,
            sstores: vec![],
            sloads: vec![],
            end: End::Budget,
            end_offset: 0,
            soft_errors: vec![],
            gas: 0,
            gas_error_at: None,
            taken_at: vec![],
            forks: 0,
        },
        visits: BTreeMap::new(),
        mem_unknown_default: false,
        landed: false,
    }];
    let mut complete = true;
    let mut steps = 0usize;
    let mut events = 0usize;
    let is_jumpdest = |t: usize| t < code.len() && kinds[t] == Kind::Start && code[t] == 0x5b;

    while let Some(mut t) = queue.pop() {
        if done.len() + queue.len() >= cfg.max_paths {
            complete = false;
            break;
        }
        let end = loop {
            if t.pc >= code.len() {
                break End::RanOffEnd;
            }
            steps += 1;
            if steps > cfg.max_steps {
                complete = false;
                break End::Budget;
            }
            let pc = t.pc;
            let v = t.visits.entry(pc).or_insert(0);
            if *v >= cfg.visit_limit {
                break End::Budget;
            }
            *v += 1;
            let op = code[pc];
            let was_landed = std::mem::replace(&mut t.landed, false);
            t.path.executed.push(pc);
            t.path.end_offset = pc;
            if !assigned(op) || op == 0xfe {
                // INVALID and unassigned bytes complete (at no cost) and end the path
                t.path.end = End::Invalid;
                break End::Invalid;
            }
            let (pops, pushes) = stack_io(op);
            if t.path.stack.len() < pops {
                break End::Error(ErrKind::StackUnderflow);
            }
            if t.path.stack.len() - pops + pushes > 1024 {
                break End::Error(ErrKind::StackOverflow);
            }
            let mut next = pc + 1 + push_len(op);
            let st = &mut t.path.stack;
            // instructions that complete and end the path are still charged their minimum gas
            let mut halt: Option<End> = None;
            match op {
                0x00 => halt = Some(End::Stop),
                0x01..=0x07 | 0x0a | 0x0b | 0x10..=0x14 | 0x16..=0x18 | 0x1a..=0x1d => {
                    let a = st.pop().unwrap();
                    let b = st.pop().unwrap();
                    st.push(alu2(op, a, b));
                }
                0x08 | 0x09 => {
                    let a = st.pop().unwrap();
                    let b = st.pop().unwrap();
                    let n = st.pop().unwrap();
                    st.push(match (a.w, b.w, n.w) {
                        (Some(x), Some(y), Some(m)) => Val::derived(Some(if op == 0x08 { x.addmod(y, m) } else { x.mulmod(y, m) }), &[a, b, n]),
                        _ => Val::derived(None, &[a, b, n]),
                    });
                }
                0x15 => {
                    let a = st.pop().unwrap();
                    st.push(Val::derived(a.w.map(|x| W::from_bool(x.is_zero())), &[a]));
                }
                0x19 => {
                    let a = st.pop().unwrap();
                    st.push(Val::derived(a.w.map(|x| x.not()), &[a]));
                }
                0x20 => {
                    let off = st.pop().unwrap();
                    let size = st.pop().unwrap();
                    let mut from = vec![off, size];
                    let mut hash = None;
                    let mut precise = false;
                    if let (Some(o), Some(s)) = (off.w, size.w) {
                        if let Some(s64) = s.as_u64_checked() {
                            if s64 <= 32 * 16 && !t.mem_unknown_default {
                                precise = true;
                                let mut words = vec![];
                                let mut all_known = s64 % 32 == 0;
                                for i in 0..((s64 + 31) / 32) {
                                    let k = o.add(W::from_u64(i * 32));
                                    match t.path.mem.get(&k) {
                                        Some(v) => {
                                            from.push(*v);
                                            match v.w {
                                                Some(w) => words.push(w),
                                                None => {
                                                    all_known = false;
                                                    // a word made unknown by an overlapping store has lost
                                                    // its provenance as well: what flows into this hash is
                                                    // not known exactly
                                                    if t.path.mem_imprecise {
                                                        precise = false;
                                                    }
                                                }
                                            }
                                        }
                                        None => {
                                            // unwritten aligned memory reads as zero only if no other store overlaps
                                            if overlaps(&t.path.mem, k) {
                                                all_known = false;
                                                precise = false;
                                            } else {
                                                // a zero word of never-written memory is part of the hashed data
                                                from.push(Val::k(W::ZERO));
                                                words.push(W::ZERO)
                                            }
                                        }
                                    }
                                }
                                if all_known {
                                    hash = Some(keccak_words(&words));
                                } else if words.len() as u64 == (s64 + 31) / 32 && !words.is_empty() {
                                    // a size that is not a multiple of 32 over known words: the EVM's hash
                                    // of the exact bytes is not modelled, but the hash of the whole words in
                                    // order is "hashing the tool documents" (its proxy-slot pass hashes
                                    // whole words), so it is attributable to these constants
                                    from.push(Val::k(keccak_words(&words)));
                                }
                            }
                        }
                    }
                    if off.w.is_none() && off.shape != 0 && size.w == Some(W::from_u64(32)) {
                        // one word at a symbolic offset that was stored to on this path
                        if let Some(v) = t.path.smem.get(&off.shape) {
                            precise = true;
                            from.push(*v);
                            if let Some(w) = v.w {
                                hash = Some(keccak_words(&[w]));
                            }
                        }
                    }
                    if !precise {
                        t.path.prov_imprecise = true;
                    }
                    t.path.stack.push(Val::derived(hash, &from));
                }
                0x38 => st.push(Val::k(W::from_u64(code.len() as u64))),
                0x58 => st.push(Val::k(W::from_u64(pc as u64))),
                0x50 => {
                    st.pop();
                }
                0x51 => {
                    let off = st.pop().unwrap();
                    let v = match off.w {
                        Some(o) => match t.path.mem.get(&o) {
                            Some(v) => *v,
                            None => {
                                if t.mem_unknown_default || overlaps(&t.path.mem, o) {
                                    t.path.prov_imprecise = true;
                                    Val::u()
                                } else {
                                    Val::k(W::ZERO)
                                }
                            }
                        },
                        None => match t.path.smem.get(&off.shape) {
                            Some(v) if off.shape != 0 => *v,
                            _ => {
                                t.path.prov_imprecise = true;
                                Val::u()
                            }
                        },
                    };
                    t.path.stack.push(v);
                }
                0x52 => {
                    let off = st.pop().unwrap();
                    let v = st.pop().unwrap();
                    match off.w {
                        Some(o) => {
                            // a store that overlaps another word makes those words unknown
                            let overl: Vec<W> = t
                                .path
                                .mem
                                .keys()
                                .copied()
                                .filter(|k| *k != o && word_distance(*k, o).map(|d| d < 32).unwrap_or(false))
                                .collect();
                            for k in overl {
                                t.path.mem.insert(k, Val::u());
                                t.path.mem_imprecise = true;
                            }
                            t.path.mem.insert(o, v);
                        }
                        None if off.shape != 0 => {
                            t.path.smem.insert(off.shape, v);
                        }
                        None => {
                            t.path.mem.clear();
                            t.path.smem.clear();
                            t.mem_unknown_default = true;
                            t.path.mem_imprecise = true;
                        }
                    }
                }
                0x53 => {
                    // MSTORE8: not modelled exactly
                    for _ in 0..pops {
                        t.path.stack.pop();
                    }
                    t.path.mem.clear();
                    t.path.smem.clear();
                    t.mem_unknown_default = true;
                    t.path.mem_imprecise = true;
                    t.path.prov_imprecise = true;
                }
                0x37 | 0x39 | 0x3c | 0x3e => {
                    // bulk copies: the destination words become unknown
                    if op == 0x3c {
                        t.path.stack.pop();
                    }
                    let dest = t.path.stack.pop().unwrap();
                    let _src = t.path.stack.pop().unwrap();
                    let size = t.path.stack.pop().unwrap();
                    clobber(&mut t, dest, size);
                }
                0x54 => {
                    let k = st.pop().unwrap();
                    // the value: the last store on this path under the same known key, else unknown
                    // (never-written storage reads as zero in a fresh EVM, which is what the subject's
                    // evaluator assumes too)
                    let v = match k.w {
                        Some(kw) => {
                            let mut found = None;
                            let mut aliased = false;
                            for (sk, sv, _) in t.path.sstores.iter().rev() {
                                match sk.w {
                                    Some(x) if x == kw => {
                                        found = Some(*sv);
                                        break;
                                    }
                                    Some(_) => {}
                                    None => {
                                        aliased = true;
                                        break;
                                    }
                                }
                            }
                            match (found, aliased) {
                                (Some(v), _) => Val::derived(v.w, &[v, k]),
                                (None, true) => Val::derived(None, &[k]),
                                (None, false) => Val::derived(Some(W::ZERO), &[k]),
                            }
                        }
                        None => Val::derived(None, &[k]),
                    };
                    t.path.sloads.push((k, pc));
                    t.path.stack.push(v);
                }
                0x55 => {
                    let k = st.pop().unwrap();
                    let v = st.pop().unwrap();
                    t.path.sstores.push((k, v, pc));
                }
                0x56 => {
                    let target = st.pop().unwrap();
                    match target.w {
                        // the instruction completes (and is charged); the path cannot be followed
                        None => halt = Some(End::Error(ErrKind::JumpSymbolic)),
                        Some(tw) => match tw.as_u64_checked() {
                            Some(tt) if (tt as usize) < code.len() && tt < u32::MAX as u64 => {
                                if is_jumpdest(tt as usize) {
                                    t.path.landed_by_jump.push(tt as usize);
                                    t.landed = true;
                                    next = tt as usize;
                                } else {
                                    break End::Error(ErrKind::JumpNotJumpdest);
                                }
                            }
                            _ => break End::Error(ErrKind::JumpOutOfRange),
                        },
                    }
                }
                0x57 => {
                    let target = st.pop().unwrap();
                    let _cond = st.pop().unwrap();
                    match target.w {
                        None => {
                            events += 1;
                            t.path.soft_errors.push((ErrKind::JumpSymbolic, pc, events))
                        }
                        Some(tw) => match tw.as_u64_checked() {
                            Some(tt) if (tt as usize) < code.len() && tt < u32::MAX as u64 => {
                                if is_jumpdest(tt as usize) {
                                    // both outcomes are explored
                                    let mut forked = t.clone();
                                    forked.pc = tt as usize;
                                    forked.path.taken_at.push(pc);
                                    forked.path.gas += (cfg.gas_of)(pc);
                                    t.path.forks += 1;
                                    queue.push(forked);
                                } else {
                                    events += 1;
                                    t.path.soft_errors.push((ErrKind::JumpNotJumpdest, pc, events));
                                }
                            }
                            _ => {
                                events += 1;
                                t.path.soft_errors.push((ErrKind::JumpOutOfRange, pc, events))
                            }
                        },
                    }
                }
                0x5b => {}
                0x5f => st.push(Val::lit(W::ZERO)),
                0x60..=0x7f => {
                    let n = push_len(op);
                    let endi = (pc + 1 + n).min(code.len());
                    // an immediate cut short by the end of the code never executes as a push in the
                    // subject (it is INVALID there); in the EVM it is zero-padded and then the code ends
                    if endi - (pc + 1) < n {
                        break End::Invalid;
                    }
                    st.push(Val::lit(W::from_be_slice(&code[pc + 1..endi])));
                }
                0x80..=0x8f => {
                    let n = (op - 0x7f) as usize;
                    let v = st[st.len() - n];
                    st.push(v);
                }
                0x90..=0x9f => {
                    let n = (op - 0x8f) as usize;
                    let l = st.len();
                    st.swap(l - 1, l - 1 - n);
                }
                0xf3 | 0xfd => {
                    st.pop();
                    st.pop();
                    halt = Some(if op == 0xf3 { End::Return } else { End::Revert });
                }
                0xff => {
                    st.pop();
                    if cfg.selfdestruct_halts {
                        halt = Some(End::SelfDestruct);
                    }
                }
                0xf1 | 0xf2 | 0xf4 | 0xfa => {
                    // the return area becomes unknown; the rest of memory is untouched
                    let args: Vec<Val> = (0..pops).map(|_| t.path.stack.pop().unwrap()).collect();
                    let (ret_off, ret_size) = (args[pops - 2], args[pops - 1]);
                    clobber(&mut t, ret_off, ret_size);
                    t.path.stack.push(Val::u());
                }
                0x30 | 0x32 | 0x33 | 0x34 | 0x36 | 0x3a | 0x41..=0x48 | 0x5a => {
                    // environment words without operands: the subject compares them structurally
                    t.path.stack.push(Val::env(op));
                }
                _ => {
                    // environment / log / create: pops, pushes unknowns
                    for _ in 0..pops {
                        t.path.stack.pop();
                    }
                    for _ in 0..pushes {
                        t.path.stack.push(Val::u());
                    }
                }
            }
            if op == 0x5b && was_landed {
                // not charged (see `landed`)
            } else {
                t.path.gas += (cfg.gas_of)(pc);
            }
            if t.path.gas > cfg.gas_limit && !(op == 0x5b && was_landed) {
                // the subject locates the error at the instruction pointer after the instruction ran,
                // which for a JUMP that was taken is the landing JUMPDEST
                t.path.gas_error_at = Some(if op == 0x56 && halt.is_none() { next } else { pc });
                break halt.unwrap_or(End::OutOfGas);
            }
            if let Some(h) = halt {
                break h;
            }
            t.pc = next;
        };
        t.path.end = end;
        done.push(t.path);
    }
    let prov_sets = ARENA.with(|a| a.borrow().0.clone());
    RefRun {
        paths: done,
        complete,
        kinds,
        prov_sets,
        prov_overflow: PROV_OVERFLOW.with(|f| f.get()),
    }
}

impl RefRun {
    pub fn provenance(&self, v: &Val) -> &std::collections::BTreeSet<W> {
        &self.prov_sets[v.prov as usize]
    }
}

fn word_distance(a: W, b: W) -> Option<u64> {
    let d = if a.ult(b) { b.sub(a) } else { a.sub(b) };
    d.as_u64_checked()
}

/// `size` bytes from `dest` become unknown. Exact when both are known, small and the area is made of
/// whole words that coincide with (or are disjoint from) the words stored so far.
fn clobber(t: &mut Thread, dest: Val, size: Val) {
    let exact = match (dest.w, size.w.and_then(|s| s.as_u64_checked())) {
        (Some(d), Some(n)) if n <= 32 * 16 => {
            let words = (n + 31) / 32;
            let mut ok = true;
            for i in 0..words {
                let k = d.add(W::from_u64(i * 32));
                if overlaps(&t.path.mem, k) {
                    ok = false;
                }
            }
            if ok {
                for i in 0..words {
                    t.path.mem.insert(d.add(W::from_u64(i * 32)), Val::u());
                }
            }
            ok
        }
        _ => false,
    };
    if !exact {
        t.path.smem.clear();
        t.path.mem.clear();
        t.mem_unknown_default = true;
        t.path.mem_imprecise = true;
        t.path.prov_imprecise = true;
    }
}

fn overlaps(mem: &BTreeMap<W, Val>, k: W) -> bool {
    mem.keys().any(|x| *x != k && word_distance(*x, k).map(|d| d < 32).unwrap_or(false))
}

//! Independent 256-bit EVM word arithmetic.
//!
//! Deliberately naive algorithms over `[u64; 4]` (little-endian limbs). Shares
//! no code with `ethnum` or the subject's `KnownWord`. Cross-checked against
//! Python integers by `vcheck selftest` + `py/refcheck.py`.

use serde::{Deserialize, Deserializer, Serialize, Serializer};
use std::fmt;

#[derive(Clone, Copy, PartialEq, Eq, Hash, PartialOrd, Ord, Default)]
pub struct W(pub [u64; 4]); // limb 0 = least significant

impl fmt::Debug for W {
    fn fmt(&self, f: &mut fmt::Formatter<'_>) -> fmt::Result {
        write!(f, "0x{}", self.hex_trim())
    }
}
impl fmt::Display for W {
    fn fmt(&self, f: &mut fmt::Formatter<'_>) -> fmt::Result {
        write!(f, "0x{}", self.hex_trim())
    }
}

impl Serialize for W {
    fn serialize<S: Serializer>(&self, s: S) -> Result<S::Ok, S::Error> {
        s.serialize_str(&format!("0x{}", self.hex64()))
    }
}
impl<'de> Deserialize<'de> for W {
    fn deserialize<D: Deserializer<'de>>(d: D) -> Result<Self, D::Error> {
        let s: String = Deserialize::deserialize(d)?;
        W::from_hex(&s).ok_or_else(|| serde::de::Error::custom("bad hex word"))
    }
}

impl W {
    pub const ZERO: W = W([0; 4]);
    pub const ONE: W = W([1, 0, 0, 0]);
    pub const MAX: W = W([u64::MAX; 4]);

    pub fn from_u64(v: u64) -> W {
        W([v, 0, 0, 0])
    }
    pub fn from_u128(v: u128) -> W {
        W([v as u64, (v >> 64) as u64, 0, 0])
    }
    pub fn pow2(k: u32) -> W {
        debug_assert!(k < 256);
        let mut l = [0u64; 4];
        l[(k / 64) as usize] = 1u64 << (k % 64);
        W(l)
    }
    pub fn min_signed() -> W {
        W::pow2(255)
    }
    pub fn from_be_bytes(b: &[u8; 32]) -> W {
        let mut l = [0u64; 4];
        for i in 0..4 {
            let mut v = 0u64;
            for j in 0..8 {
                v = (v << 8) | b[(3 - i) * 8 + j] as u64;
            }
            l[i] = v;
        }
        W(l)
    }
    /// Right-aligned (as PUSHn does).
    pub fn from_be_slice(b: &[u8]) -> W {
        assert!(b.len() <= 32);
        let mut full = [0u8; 32];
        full[32 - b.len()..].copy_from_slice(b);
        W::from_be_bytes(&full)
    }
    pub fn to_be_bytes(self) -> [u8; 32] {
        let mut b = [0u8; 32];
        for i in 0..4 {
            let limb = self.0[3 - i];
            for j in 0..8 {
                b[i * 8 + j] = (limb >> (56 - 8 * j)) as u8;
            }
        }
        b
    }
    pub fn hex64(self) -> String {
        hex::encode(self.to_be_bytes())
    }
    pub fn hex_trim(self) -> String {
        let s = self.hex64();
        let t = s.trim_start_matches('0');
        if t.is_empty() {
            "0".into()
        } else {
            t.into()
        }
    }
    pub fn from_hex(s: &str) -> Option<W> {
        let s = s.strip_prefix("0x").unwrap_or(s);
        if s.is_empty() || s.len() > 64 || !s.bytes().all(|c| c.is_ascii_hexdigit()) {
            return None;
        }
        let padded = format!("{:0>64}", s);
        let bytes = hex::decode(padded).ok()?;
        let arr: [u8; 32] = bytes.try_into().ok()?;
        Some(W::from_be_bytes(&arr))
    }
    pub fn is_zero(self) -> bool {
        self.0 == [0; 4]
    }
    pub fn bit(self, i: u32) -> bool {
        i < 256 && (self.0[(i / 64) as usize] >> (i % 64)) & 1 == 1
    }
    pub fn set_bit(&mut self, i: u32) {
        self.0[(i / 64) as usize] |= 1u64 << (i % 64);
    }
    pub fn is_neg(self) -> bool {
        self.bit(255)
    }
    /// Number of significant bits.
    pub fn bits(self) -> u32 {
        for i in (0..4).rev() {
            if self.0[i] != 0 {
                return (i as u32) * 64 + (64 - self.0[i].leading_zeros());
            }
        }
        0
    }
    pub fn as_u64_checked(self) -> Option<u64> {
        if self.0[1] == 0 && self.0[2] == 0 && self.0[3] == 0 {
            Some(self.0[0])
        } else {
            None
        }
    }
    pub fn low_u64(self) -> u64 {
        self.0[0]
    }
    /// Minimal big-endian byte length (0 for zero).
    pub fn byte_len(self) -> usize {
        ((self.bits() + 7) / 8) as usize
    }

    // ---- arithmetic ----------------------------------------------------------------------

    pub fn add(self, o: W) -> W {
        let mut r = [0u64; 4];
        let mut carry = 0u128;
        for i in 0..4 {
            let s = self.0[i] as u128 + o.0[i] as u128 + carry;
            r[i] = s as u64;
            carry = s >> 64;
        }
        W(r)
    }
    pub fn not(self) -> W {
        W([!self.0[0], !self.0[1], !self.0[2], !self.0[3]])
    }
    pub fn neg(self) -> W {
        self.not().add(W::ONE)
    }
    pub fn sub(self, o: W) -> W {
        self.add(o.neg())
    }
    pub fn mul(self, o: W) -> W {
        // schoolbook, truncated to 256 bits
        let mut r = [0u64; 4];
        for i in 0..4 {
            let mut carry = 0u128;
            for j in 0..(4 - i) {
                let cur = r[i + j] as u128 + (self.0[i] as u128) * (o.0[j] as u128) + carry;
                r[i + j] = cur as u64;
                carry = cur >> 64;
            }
        }
        W(r)
    }
    pub fn ult(self, o: W) -> bool {
        for i in (0..4).rev() {
            if self.0[i] != o.0[i] {
                return self.0[i] < o.0[i];
            }
        }
        false
    }
    pub fn ugt(self, o: W) -> bool {
        o.ult(self)
    }
    pub fn slt(self, o: W) -> bool {
        match (self.is_neg(), o.is_neg()) {
            (true, false) => true,
            (false, true) => false,
            _ => self.ult(o),
        }
    }
    pub fn sgt(self, o: W) -> bool {
        o.slt(self)
    }
    pub fn shl1(self) -> W {
        let mut r = [0u64; 4];
        let mut carry = 0u64;
        for i in 0..4 {
            r[i] = (self.0[i] << 1) | carry;
            carry = self.0[i] >> 63;
        }
        W(r)
    }
    pub fn shr1(self) -> W {
        let mut r = [0u64; 4];
        let mut carry = 0u64;
        for i in (0..4).rev() {
            r[i] = (self.0[i] >> 1) | (carry << 63);
            carry = self.0[i] & 1;
        }
        W(r)
    }
    /// bit-serial long division; (q, r); divisor must be non-zero
    fn udivrem(self, d: W) -> (W, W) {
        let mut q = W::ZERO;
        let mut r = W::ZERO;
        for i in (0..256u32).rev() {
            // r = r*2 + bit ; r never exceeds 2*d-1 < 2^257 — track overflow bit explicitly
            let top = r.bit(255);
            r = r.shl1();
            if self.bit(i) {
                r.0[0] |= 1;
            }
            if top || !r.ult(d) {
                r = r.sub(d);
                q.set_bit(i);
            }
        }
        (q, r)
    }
    pub fn div(self, d: W) -> W {
        if d.is_zero() {
            W::ZERO
        } else {
            self.udivrem(d).0
        }
    }
    pub fn rem(self, d: W) -> W {
        if d.is_zero() {
            W::ZERO
        } else {
            self.udivrem(d).1
        }
    }
    fn abs(self) -> W {
        if self.is_neg() {
            self.neg()
        } else {
            self
        }
    }
    pub fn sdiv(self, d: W) -> W {
        if d.is_zero() {
            return W::ZERO;
        }
        let q = self.abs().div(d.abs());
        if self.is_neg() != d.is_neg() {
            q.neg()
        } else {
            q
        }
    }
    pub fn smod(self, d: W) -> W {
        if d.is_zero() {
            return W::ZERO;
        }
        let r = self.abs().rem(d.abs());
        if self.is_neg() {
            r.neg()
        } else {
            r
        }
    }
    pub fn exp(self, e: W) -> W {
        let mut result = W::ONE;
        let mut base = self;
        for i in 0..256u32 {
            if e.bit(i) {
                result = result.mul(base);
            }
            base = base.mul(base);
        }
        result
    }
    pub fn and(self, o: W) -> W {
        W([self.0[0] & o.0[0], self.0[1] & o.0[1], self.0[2] & o.0[2], self.0[3] & o.0[3]])
    }
    pub fn or(self, o: W) -> W {
        W([self.0[0] | o.0[0], self.0[1] | o.0[1], self.0[2] | o.0[2], self.0[3] | o.0[3]])
    }
    pub fn xor(self, o: W) -> W {
        W([self.0[0] ^ o.0[0], self.0[1] ^ o.0[1], self.0[2] ^ o.0[2], self.0[3] ^ o.0[3]])
    }
    /// value << shift (EVM SHL: shift is the first operand)
    pub fn shl(self, shift: W) -> W {
        match shift.as_u64_checked() {
            Some(s) if s < 256 => {
                let mut r = self;
                for _ in 0..s {
                    r = r.shl1();
                }
                r
            }
            _ => W::ZERO,
        }
    }
    pub fn shr(self, shift: W) -> W {
        match shift.as_u64_checked() {
            Some(s) if s < 256 => {
                let mut r = self;
                for _ in 0..s {
                    r = r.shr1();
                }
                r
            }
            _ => W::ZERO,
        }
    }
    pub fn sar(self, shift: W) -> W {
        let neg = self.is_neg();
        match shift.as_u64_checked() {
            Some(s) if s < 256 => {
                let mut r = self;
                for _ in 0..s {
                    r = r.shr1();
                    if neg {
                        r.set_bit(255);
                    }
                }
                r
            }
            _ => {
                if neg {
                    W::MAX
                } else {
                    W::ZERO
                }
            }
        }
    }
    /// EVM SIGNEXTEND(b, x): b = byte index of sign byte
    pub fn signextend(b: W, x: W) -> W {
        match b.as_u64_checked() {
            Some(b) if b < 31 => {
                let sign_bit = (b as u32) * 8 + 7;
                let mut r = x;
                if x.bit(sign_bit) {
                    for i in sign_bit + 1..256 {
                        r.set_bit(i);
                    }
                } else {
                    for i in sign_bit + 1..256 {
                        r.0[(i / 64) as usize] &= !(1u64 << (i % 64));
                    }
                }
                r
            }
            _ => x,
        }
    }
    /// EVM BYTE(i, x)
    pub fn byte(i: W, x: W) -> W {
        match i.as_u64_checked() {
            Some(i) if i < 32 => W::from_u64(x.to_be_bytes()[i as usize] as u64),
            _ => W::ZERO,
        }
    }
    pub fn from_bool(b: bool) -> W {
        if b {
            W::ONE
        } else {
            W::ZERO
        }
    }

    // 512-bit helpers for ADDMOD / MULMOD
    fn mul_wide(self, o: W) -> [u64; 8] {
        let mut r = [0u64; 8];
        for i in 0..4 {
            let mut carry = 0u128;
            for j in 0..4 {
                let cur = r[i + j] as u128 + (self.0[i] as u128) * (o.0[j] as u128) + carry;
                r[i + j] = cur as u64;
                carry = cur >> 64;
            }
            r[i + 4] = carry as u64;
        }
        r
    }
    fn rem_wide(n: [u64; 8], d: W) -> W {
        // bit-serial over 512 bits
        let mut r = W::ZERO;
        for i in (0..512usize).rev() {
            let top = r.bit(255);
            r = r.shl1();
            if (n[i / 64] >> (i % 64)) & 1 == 1 {
                r.0[0] |= 1;
            }
            if top || !r.ult(d) {
                r = r.sub(d);
            }
        }
        r
    }
    pub fn addmod(self, o: W, n: W) -> W {
        if n.is_zero() {
            return W::ZERO;
        }
        let mut wide = [0u64; 8];
        let mut carry = 0u128;
        for i in 0..4 {
            let s = self.0[i] as u128 + o.0[i] as u128 + carry;
            wide[i] = s as u64;
            carry = s >> 64;
        }
        wide[4] = carry as u64;
        W::rem_wide(wide, n)
    }
    pub fn mulmod(self, o: W, n: W) -> W {
        if n.is_zero() {
            return W::ZERO;
        }
        W::rem_wide(self.mul_wide(o), n)
    }
}

pub fn keccak256(data: &[u8]) -> W {
    use sha3::{Digest, Keccak256};
    let mut h = Keccak256::new();
    h.update(data);
    let out = h.finalize();
    let arr: [u8; 32] = out.as_slice().try_into().unwrap();
    W::from_be_bytes(&arr)
}

pub fn keccak_words(words: &[W]) -> W {
    let mut data = Vec::with_capacity(words.len() * 32);
    for w in words {
        data.extend_from_slice(&w.to_be_bytes());
    }
    keccak256(&data)
}

/// The boundary set of the properties' quantifiers.
pub fn boundary_words() -> Vec<W> {
    let mut v = vec![
        W::ZERO,
        W::ONE,
        W::from_u64(2),
        W::from_u64(3),
        W::from_u64(7),
        W::from_u64(8),
        W::from_u64(31),
        W::from_u64(32),
        W::from_u64(33),
        W::from_u64(64),
        W::from_u64(96),
        W::from_u64(127),
        W::from_u64(128),
        W::from_u64(160),
        W::from_u64(248),
        W::from_u64(255),
        W::from_u64(256),
        W::from_u64(257),
        W::from_u64(1u64 << 32),
        W::from_u64((1u64 << 32) - 1),
        W::from_u64((1u64 << 32) + 1),
        W::from_u64(u64::MAX),
        W::from_u128(1u128 << 64),
        W::from_u128((1u128 << 64) + 1),
        W::pow2(255),
        W::pow2(255).sub(W::ONE),
        W::pow2(255).add(W::ONE),
        W::MAX,
        W::MAX.sub(W::ONE),
        W::pow2(160).sub(W::ONE), // address mask
        W::pow2(128),
        W::pow2(128).sub(W::ONE),
    ];
    for k in 7..=255u32 {
        let p = W::pow2(k);
        v.push(p);
        v.push(p.sub(W::ONE));
        v.push(p.add(W::ONE));
    }
    v.sort();
    v.dedup();
    v
}

/// A reduced boundary set (≈130 values) for the exhaustive quick tier of C09.
pub fn boundary_words_small() -> Vec<W> {
    let mut v = vec![
        W::ZERO,
        W::ONE,
        W::from_u64(2),
        W::from_u64(3),
        W::from_u64(31),
        W::from_u64(32),
        W::from_u64(255),
        W::from_u64(256),
        W::from_u64(257),
        W::from_u64(1u64 << 32),
        W::from_u64((1u64 << 32) - 1),
        W::from_u64((1u64 << 32) + 1),
        W::from_u64(u64::MAX),
        W::from_u128(1u128 << 64),
        W::pow2(255),
        W::pow2(255).sub(W::ONE),
        W::pow2(255).add(W::ONE),
        W::MAX,
        W::MAX.sub(W::ONE),
        W::pow2(160).sub(W::ONE),
    ];
    for k in [7u32, 8, 15, 16, 31, 32, 33, 63, 64, 65, 127, 128, 159, 160, 161, 191, 192, 247, 248, 253, 254, 255] {
        let p = W::pow2(k);
        v.push(p);
        v.push(p.sub(W::ONE));
        v.push(p.add(W::ONE));
        v.push(p.neg());
    }
    v.sort();
    v.dedup();
    v
}

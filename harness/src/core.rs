//! Shared machinery: choice streams, accumulators, the proptest driver, panic
//! capture, known-finding matching, evidence and replay files.

use crate::refword::{self, W};
use proptest::{
    collection::vec as pvec,
    prelude::any,
    test_runner::{Config as PtConfig, RngSeed, TestCaseError, TestError, TestRunner},
};
use serde::{Deserialize, Serialize};
use serde_json::{json, Value};
use std::{
    cell::RefCell,
    collections::{BTreeMap, HashSet},
    panic::{self, AssertUnwindSafe},
    path::{Path, PathBuf},
    sync::OnceLock,
};

// ------------------------------------------------------------------------------------------------
// Tiers / context
// ------------------------------------------------------------------------------------------------

#[derive(Clone, Copy, Debug, PartialEq, Eq, Serialize, Deserialize)]
pub enum Tier {
    Quick,
    Thorough,
}
impl Tier {
    pub fn name(self) -> &'static str {
        match self {
            Tier::Quick => "quick",
            Tier::Thorough => "thorough",
        }
    }
    pub fn pick<T>(self, q: T, t: T) -> T {
        match self {
            Tier::Quick => q,
            Tier::Thorough => t,
        }
    }
}

pub const SHARDS: usize = 8;

pub fn verif_root() -> PathBuf {
    if let Ok(p) = std::env::var("VERIF_ROOT") {
        return PathBuf::from(p);
    }
    // harness/ is one below the root
    let exe_root = Path::new(env!("CARGO_MANIFEST_DIR")).parent().unwrap().to_path_buf();
    exe_root
}

pub fn mix(seed: u64, prop: &str, shard: u64, round: u64) -> u64 {
    // FNV + splitmix; deterministic
    let mut h: u64 = 0xcbf29ce484222325 ^ seed.wrapping_mul(0x9e3779b97f4a7c15);
    for b in prop.bytes() {
        h ^= b as u64;
        h = h.wrapping_mul(0x100000001b3);
    }
    h ^= shard.wrapping_mul(0xd6e8feb86659fd93);
    h ^= round.wrapping_mul(0xa0761d6478bd642f);
    let mut z = h.wrapping_add(0x9e3779b97f4a7c15);
    z = (z ^ (z >> 30)).wrapping_mul(0xbf58476d1ce4e5b9);
    z = (z ^ (z >> 27)).wrapping_mul(0x94d049bb133111eb);
    z ^ (z >> 31)
}

pub fn fnv64(data: &[u8]) -> u64 {
    let mut h: u64 = 0xcbf29ce484222325;
    for b in data {
        h ^= *b as u64;
        h = h.wrapping_mul(0x100000001b3);
    }
    h
}

// ------------------------------------------------------------------------------------------------
// Chooser: all random choices come from a finite stream of u32s produced by proptest (or by a
// fuzzer's bytes); when the stream is exhausted every choice is 0 (the simplest alternative).
// ------------------------------------------------------------------------------------------------

pub struct Chooser<'a> {
    data: &'a [u32],
    pos:  usize,
}

impl<'a> Chooser<'a> {
    pub fn new(data: &'a [u32]) -> Self {
        Self { data, pos: 0 }
    }
    pub fn next(&mut self) -> u32 {
        let v = self.data.get(self.pos).copied().unwrap_or(0);
        self.pos += 1;
        v
    }
    /// the whole underlying stream (stored in replay files of generator-defined cases)
    pub fn raw(&self) -> &'a [u32] {
        self.data
    }
    pub fn exhausted(&self) -> bool {
        self.pos >= self.data.len()
    }
    pub fn remaining(&self) -> usize {
        self.data.len().saturating_sub(self.pos)
    }
    /// monotone map of a u32 onto 0..n
    pub fn below(&mut self, n: usize) -> usize {
        if n <= 1 {
            // still consume, so that streams stay aligned between alternatives
            let _ = self.next();
            return 0;
        }
        ((self.next() as u64 * n as u64) >> 32) as usize
    }
    pub fn range(&mut self, lo: usize, hi_incl: usize) -> usize {
        lo + self.below(hi_incl - lo + 1)
    }
    /// true with probability num/den; shrinks towards false
    pub fn chance(&mut self, num: usize, den: usize) -> bool {
        self.below(den) >= den - num.min(den)
    }
    pub fn pick<'b, T>(&mut self, xs: &'b [T]) -> &'b T {
        &xs[self.below(xs.len())]
    }
    pub fn u64(&mut self) -> u64 {
        ((self.next() as u64) << 32) | self.next() as u64
    }
    pub fn random_word(&mut self) -> W {
        W([self.u64(), self.u64(), self.u64(), self.u64()])
    }
    /// boundary-biased 256-bit word
    pub fn word(&mut self) -> W {
        static B: OnceLock<Vec<W>> = OnceLock::new();
        let b = B.get_or_init(refword::boundary_words);
        match self.below(10) {
            0 | 1 => W::from_u64(self.below(300) as u64),
            2..=6 => *self.pick(b),
            7 => {
                // random with random byte length
                let len = self.range(1, 32);
                let w = self.random_word();
                if len == 32 {
                    w
                } else {
                    w.and(W::pow2((len * 8) as u32).sub(W::ONE))
                }
            }
            8 => {
                // boundary ± small
                let base = *self.pick(b);
                let d = W::from_u64(self.below(40) as u64);
                if self.chance(1, 2) {
                    base.add(d)
                } else {
                    base.sub(d)
                }
            }
            _ => self.random_word(),
        }
    }
    pub fn small_word(&mut self) -> W {
        W::from_u64(self.below(64) as u64)
    }
}

// ------------------------------------------------------------------------------------------------
// Accumulator
// ------------------------------------------------------------------------------------------------

#[derive(Clone, Debug, Default, Serialize, Deserialize)]
pub struct Acc {
    pub evaluations: u64,
    pub labels:      BTreeMap<String, u64>,
    pub distinct:    HashSet<u64>,
    pub nontrivial:  HashSet<u64>,
    pub samples:     Vec<Value>,
    pub known:       BTreeMap<String, u64>,
    pub excluded:    BTreeMap<String, u64>,
    pub maxima:      BTreeMap<String, u64>,
    pub counters:    BTreeMap<String, u64>,
    pub violations:  Vec<Violation>,
    pub notes:       Vec<String>,
    #[serde(skip)]
    pub frozen:      bool,
    #[serde(skip)]
    pub sample_cap:  usize,
}

impl Acc {
    pub fn new() -> Self {
        Self {
            sample_cap: 4,
            ..Default::default()
        }
    }
    pub fn case(&mut self) {
        if !self.frozen {
            self.evaluations += 1;
        }
    }
    pub fn label(&mut self, l: &str) {
        if !self.frozen {
            *self.labels.entry(l.to_string()).or_default() += 1;
        }
    }
    pub fn label_if(&mut self, c: bool, l: &str) {
        if c {
            self.label(l);
        }
    }
    pub fn count(&mut self, l: &str, n: u64) {
        if !self.frozen {
            *self.counters.entry(l.to_string()).or_default() += n;
        }
    }
    pub fn max(&mut self, l: &str, v: u64) {
        if !self.frozen {
            let e = self.maxima.entry(l.to_string()).or_default();
            if v > *e {
                *e = v;
            }
        }
    }
    pub fn excluded(&mut self, l: &str) {
        if !self.frozen {
            *self.excluded.entry(l.to_string()).or_default() += 1;
        }
    }
    /// record the case hash; `nontrivial` by the property's stated rule
    pub fn mark(&mut self, hash: u64, nontrivial: bool) {
        if !self.frozen {
            self.distinct.insert(hash);
            if nontrivial {
                self.nontrivial.insert(hash);
            }
        }
    }
    pub fn sample(&mut self, f: impl FnOnce() -> Value) {
        if !self.frozen && self.samples.len() < self.sample_cap.max(1) {
            self.samples.push(f());
        }
    }
    pub fn note(&mut self, s: impl Into<String>) {
        if !self.frozen && self.notes.len() < 50 {
            self.notes.push(s.into());
        }
    }
    pub fn merge(&mut self, o: Acc) {
        self.evaluations += o.evaluations;
        for (k, v) in o.labels {
            *self.labels.entry(k).or_default() += v;
        }
        self.distinct.extend(o.distinct);
        self.nontrivial.extend(o.nontrivial);
        for s in o.samples {
            if self.samples.len() < 6 {
                self.samples.push(s);
            }
        }
        for (k, v) in o.known {
            *self.known.entry(k).or_default() += v;
        }
        for (k, v) in o.excluded {
            *self.excluded.entry(k).or_default() += v;
        }
        for (k, v) in o.maxima {
            let e = self.maxima.entry(k).or_default();
            if v > *e {
                *e = v;
            }
        }
        for (k, v) in o.counters {
            *self.counters.entry(k).or_default() += v;
        }
        self.violations.extend(o.violations);
        for n in o.notes {
            if self.notes.len() < 50 {
                self.notes.push(n);
            }
        }
    }
}

#[derive(Clone, Debug, Serialize, Deserialize)]
pub struct Violation {
    /// class of the failing input; the key for known-finding matching
    pub signature: String,
    pub detail:    String,
    /// everything `replay` needs
    pub case:      Value,
}

impl Violation {
    pub fn new(signature: impl Into<String>, detail: impl Into<String>, case: Value) -> Self {
        Self {
            signature: signature.into(),
            detail: detail.into(),
            case,
        }
    }
}

pub enum CaseResult {
    Pass,
    Fail(Violation),
}

// ------------------------------------------------------------------------------------------------
// Known findings
// ------------------------------------------------------------------------------------------------

#[derive(Clone, Debug, Default, Serialize, Deserialize)]
pub struct KnownFinding {
    pub property:  String,
    pub signature: String,
    pub what:      String,
}

#[derive(Clone, Debug, Default, Serialize, Deserialize)]
pub struct KnownFindings {
    #[serde(default)]
    pub known: Vec<KnownFinding>,
    #[serde(default)]
    pub fixed: Vec<String>,
}

impl KnownFindings {
    pub fn load() -> Self {
        let p = verif_root().join("known_findings.json");
        match std::fs::read_to_string(&p) {
            Ok(s) => serde_json::from_str(&s).unwrap_or_else(|e| {
                eprintln!("harness: cannot parse {}: {e}", p.display());
                std::process::exit(2);
            }),
            Err(_) => Self::default(),
        }
    }
    pub fn lookup(&self, prop: &str, sig: &str) -> Option<&KnownFinding> {
        self.known.iter().find(|k| k.property == prop && k.signature == sig)
    }
}

// ------------------------------------------------------------------------------------------------
// Panic capture
// ------------------------------------------------------------------------------------------------

#[derive(Clone, Debug)]
pub struct PanicSig {
    pub file:  String,
    pub line:  u32,
    pub msg:   String,
    pub frame: String,
}

impl PanicSig {
    /// `file:line|message class|first repo frame`
    pub fn signature(&self) -> String {
        format!("panic {}:{} [{}] via {}", self.file, self.line, msg_class(&self.msg), self.frame)
    }
}

fn msg_class(m: &str) -> String {
    // strip digits / payloads so that one defect has one class
    let mut s: String = m.chars().take(80).collect();
    if let Some(i) = s.find(':') {
        // keep the head of "xxx: payload" messages
        if i > 10 {
            s.truncate(i);
        }
    }
    s.chars().map(|c| if c.is_ascii_digit() { '#' } else { c }).collect()
}

thread_local! {
    static LAST_PANIC: RefCell<Option<PanicSig>> = const { RefCell::new(None) };
    static CAPTURE: RefCell<bool> = const { RefCell::new(false) };
}

fn short_repo_path(p: &str) -> String {
    match p.find("/src/") {
        Some(i) if p.starts_with("/repo") || p.contains("storage-layout-extractor") => format!("src/{}", &p[i + 5..]),
        _ => {
            // registry crate: keep crate dir + tail
            if let Some(i) = p.find("/registry/src/") {
                let tail = &p[i + 14..];
                match tail.find('/') {
                    Some(j) => tail[j + 1..].to_string(),
                    None => tail.to_string(),
                }
            } else {
                p.to_string()
            }
        }
    }
}

/// idempotent variant for fuzz targets (called at the top of every iteration)
pub fn install_panic_hook_once() {
    static ONCE: std::sync::Once = std::sync::Once::new();
    ONCE.call_once(install_panic_hook);
}

pub fn install_panic_hook() {
    let default = panic::take_hook();
    panic::set_hook(Box::new(move |info| {
        let capturing = CAPTURE.with(|c| *c.borrow());
        if !capturing {
            default(info);
            return;
        }
        let (file, line) = info
            .location()
            .map(|l| (l.file().to_string(), l.line()))
            .unwrap_or(("?".into(), 0));
        let msg = if let Some(s) = info.payload().downcast_ref::<&str>() {
            s.to_string()
        } else if let Some(s) = info.payload().downcast_ref::<String>() {
            s.clone()
        } else {
            "<non-string panic>".into()
        };
        let in_repo = file.starts_with("src/") || file.starts_with("/repo/src/");
        let frame = if in_repo {
            "-".to_string()
        } else {
            // slow path: find the first frame inside the subject
            let bt = std::backtrace::Backtrace::force_capture().to_string();
            let mut found = "?".to_string();
            for l in bt.lines() {
                let l = l.trim();
                if let Some(rest) = l.strip_prefix("at ") {
                    if rest.starts_with("/repo/src/") {
                        // strip column
                        let mut parts = rest.rsplitn(2, ':');
                        let _col = parts.next();
                        found = short_repo_path(parts.next().unwrap_or(rest));
                        break;
                    }
                }
            }
            found
        };
        let sig = PanicSig {
            file: short_repo_path(&file),
            line,
            msg,
            frame,
        };
        LAST_PANIC.with(|l| *l.borrow_mut() = Some(sig));
    }));
}

/// Run subject code, turning a panic into a signature.
pub fn guard<T>(f: impl FnOnce() -> T) -> Result<T, PanicSig> {
    CAPTURE.with(|c| *c.borrow_mut() = true);
    LAST_PANIC.with(|l| *l.borrow_mut() = None);
    let r = panic::catch_unwind(AssertUnwindSafe(f));
    CAPTURE.with(|c| *c.borrow_mut() = false);
    match r {
        Ok(v) => Ok(v),
        Err(_) => Err(LAST_PANIC.with(|l| l.borrow_mut().take()).unwrap_or(PanicSig {
            file:  "?".into(),
            line:  0,
            msg:   "?".into(),
            frame: "?".into(),
        })),
    }
}

// ------------------------------------------------------------------------------------------------
// The proptest driver (one shard)
// ------------------------------------------------------------------------------------------------

pub struct ShardCtx<'a> {
    pub prop:  &'a str,
    pub tier:  Tier,
    pub seed:  u64,
    pub shard: usize,
    pub known: &'a KnownFindings,
    /// file that receives the choices of the case in flight (crash attribution)
    pub inflight: Option<PathBuf>,
}

/// shard number used when a property's run_shard is entered from a fuzz target (see fuzzing.rs)
pub const FUZZ_SHARD: usize = 1 << 40;
impl ShardCtx<'_> {
    pub fn fuzzing(&self) -> bool {
        self.shard == FUZZ_SHARD
    }
}

pub struct FuzzState {
    pub choices: Vec<u32>,
    pub select:  usize,
    pub seen:    usize,
    pub result:  Option<CaseResult>,
}
thread_local! {
    pub static FUZZ: RefCell<Option<FuzzState>> = const { RefCell::new(None) };
}

thread_local! {
    static SHRINK_ITERS: std::cell::Cell<u32> = const { std::cell::Cell::new(1500) };
    static MAX_ROUNDS: std::cell::Cell<u64> = const { std::cell::Cell::new(12) };
}

/// expensive properties shrink less and stop after fewer distinct new signatures
pub fn set_search_limits(shrink_iters: u32, max_new_signatures: u64) {
    SHRINK_ITERS.with(|c| c.set(shrink_iters));
    MAX_ROUNDS.with(|c| c.set(max_new_signatures));
}

/// Drive `check` over `cases` generated choice-streams of at most `max_choices` u32s.
/// New violations are shrunk by proptest and appended to `acc.violations`; the search continues
/// past them (and past known findings) until the case budget is used.
pub fn drive(
    ctx: &ShardCtx,
    stream: &str,
    cases: u32,
    max_choices: usize,
    acc: &mut Acc,
    check: &dyn Fn(&mut Chooser, &mut Acc) -> CaseResult,
) {
    // fuzz mode (see fuzzing.rs): the k-th `drive` of the property's run_shard runs its closure once on
    // the fuzzer's choices, every other `drive` does nothing
    let fuzz_choices = FUZZ.with(|f| {
        let mut f = f.borrow_mut();
        match f.as_mut() {
            None => None,
            Some(st) => {
                let k = st.seen;
                st.seen += 1;
                Some(if k == st.select { Some(st.choices.clone()) } else { None })
            }
        }
    });
    if let Some(sel) = fuzz_choices {
        if let Some(choices) = sel {
            let _ = (cases, max_choices, stream);
            let mut ch = Chooser::new(&choices);
            acc.case();
            let r = check(&mut ch, acc);
            FUZZ.with(|f| f.borrow_mut().as_mut().unwrap().result = Some(r));
        }
        return;
    }
    let mut remaining = cases as i64;
    let mut round = 0u64;
    let mut reported: HashSet<String> = acc.violations.iter().map(|v| v.signature.clone()).collect();
    let max_rounds = MAX_ROUNDS.with(|c| c.get());
    let shrink_iters = SHRINK_ITERS.with(|c| c.get());
    while remaining > 0 && round < max_rounds {
        let cfg = PtConfig {
            cases: remaining as u32,
            failure_persistence: None,
            rng_seed: RngSeed::Fixed(mix(ctx.seed, &format!("{}/{}", ctx.prop, stream), ctx.shard as u64, round)),
            max_shrink_iters: shrink_iters,
            max_global_rejects: 1,
            ..PtConfig::default()
        };
        let mut runner = TestRunner::new(cfg);
        let before = acc.evaluations;
        let target: RefCell<Option<String>> = RefCell::new(None);
        let acc_cell = RefCell::new(std::mem::take(acc));
        let strategy = pvec(any::<u32>(), 0..=max_choices);
        let result = runner.run(&strategy, |choices| {
            if let Some(p) = &ctx.inflight {
                if target.borrow().is_none() {
                    let mut bytes = Vec::with_capacity(choices.len() * 4);
                    for c in &choices {
                        bytes.extend_from_slice(&c.to_le_bytes());
                    }
                    let _ = std::fs::write(p, &bytes);
                }
            }
            let mut a = acc_cell.borrow_mut();
            let mut ch = Chooser::new(&choices);
            a.case();
            match check(&mut ch, &mut a) {
                CaseResult::Pass => Ok(()),
                CaseResult::Fail(v) => {
                    if ctx.known.lookup(ctx.prop, &v.signature).is_some() {
                        if !a.frozen {
                            *a.known.entry(v.signature.clone()).or_default() += 1;
                        }
                        return Ok(());
                    }
                    if reported.contains(&v.signature) {
                        return Ok(());
                    }
                    let mut t = target.borrow_mut();
                    match &*t {
                        None => {
                            *t = Some(v.signature.clone());
                            a.frozen = true;
                            Err(TestCaseError::fail(v.signature))
                        }
                        Some(s) if *s == v.signature => Err(TestCaseError::fail(v.signature)),
                        Some(_) => Ok(()),
                    }
                }
            }
        });
        *acc = acc_cell.into_inner();
        acc.frozen = false;
        let used = (acc.evaluations - before) as i64;
        match result {
            Ok(()) => break,
            Err(TestError::Fail(_, choices)) => {
                // re-run the minimal case on a scratch accumulator to obtain its violation
                let mut scratch = Acc::new();
                let mut ch = Chooser::new(&choices);
                let sig = target.borrow().clone().unwrap_or_default();
                // hash-order dependent failures may need a few attempts to show again
                let mut reproduced = None;
                for _ in 0..6 {
                    let mut ch = Chooser::new(&choices);
                    if let CaseResult::Fail(v) = check(&mut ch, &mut scratch) {
                        reproduced = Some(v);
                        break;
                    }
                }
                let _ = &mut ch;
                match reproduced {
                    Some(v) => {
                        reported.insert(v.signature.clone());
                        if v.signature != sig {
                            reported.insert(sig);
                        }
                        acc.violations.push(v);
                    }
                    None => {
                        // observed once, not reproducible from the same choices (iteration-order
                        // dependent): keep the signature so that known-finding matching still works
                        reported.insert(sig.clone());
                        acc.violations.push(Violation::new(
                            sig,
                            "observed during the search but did not show again in 6 re-runs from the same choices (depends on hash iteration order)",
                            json!({ "choices": choices }),
                        ));
                    }
                }
                remaining -= used.max(1);
                round += 1;
            }
            Err(TestError::Abort(r)) => {
                acc.note(format!("proptest aborted: {r}"));
                break;
            }
        }
    }
}

// ------------------------------------------------------------------------------------------------
// Evidence
// ------------------------------------------------------------------------------------------------

pub struct EvidenceSpec<'a> {
    pub prop:        &'a str,
    pub tier:        Tier,
    pub seed:        u64,
    pub level:       &'a str,
    pub rule:        &'a str,
    pub assumptions: Vec<String>,
    pub exhaustive:  Option<bool>,
    pub wall_s:      f64,
    pub violations:  usize,
    pub extra:       Value,
}

pub fn write_evidence(spec: &EvidenceSpec, acc: &Acc) {
    let mut coverage = serde_json::Map::new();
    coverage.insert("evaluations".into(), json!(acc.evaluations));
    coverage.insert("distinct_cases".into(), json!(acc.distinct.len()));
    coverage.insert("distinct_nontrivial".into(), json!(acc.nontrivial.len()));
    coverage.insert("rule".into(), json!(spec.rule));
    coverage.insert("samples".into(), json!(acc.samples));
    coverage.insert("labels".into(), json!(acc.labels));
    coverage.insert("counters".into(), json!(acc.counters));
    coverage.insert("maxima".into(), json!(acc.maxima));
    coverage.insert("excluded".into(), json!(acc.excluded));
    coverage.insert("known_findings_met".into(), json!(acc.known));
    coverage.insert("notes".into(), json!(acc.notes));
    if let Some(e) = spec.exhaustive {
        coverage.insert("exhaustive".into(), json!(e));
    }
    if spec.level == "translation_validation" {
        coverage.insert("programs".into(), json!(acc.evaluations));
        coverage.insert(
            "disagreements_checked".into(),
            json!(acc.counters.get("comparisons").copied().unwrap_or(0)),
        );
    }
    if let Value::Object(m) = &spec.extra {
        for (k, v) in m {
            coverage.insert(k.clone(), v.clone());
        }
    }
    let ev = json!({
        "property_id": spec.prop,
        "tier": spec.tier.name(),
        "seed": spec.seed,
        "level": spec.level,
        "coverage": Value::Object(coverage),
        "assumptions": spec.assumptions,
        "wall_s": (spec.wall_s * 1000.0).round() / 1000.0,
        "violations": spec.violations,
    });
    let dir = verif_root().join("evidence");
    let _ = std::fs::create_dir_all(&dir);
    let path = dir.join(format!("{}.json", spec.prop));
    std::fs::write(&path, serde_json::to_string_pretty(&ev).unwrap() + "\n").expect("write evidence");
}

// ------------------------------------------------------------------------------------------------
// Replay files
// ------------------------------------------------------------------------------------------------

#[derive(Clone, Debug, Serialize, Deserialize)]
pub struct ReplayFile {
    pub property:  String,
    pub signature: String,
    pub detail:    String,
    pub case:      Value,
}

pub fn committed_replays(prop: &str) -> Vec<(PathBuf, ReplayFile)> {
    let dir = verif_root().join("replays").join(prop);
    let mut out = vec![];
    if let Ok(rd) = std::fs::read_dir(&dir) {
        let mut paths: Vec<_> = rd.filter_map(|e| e.ok()).map(|e| e.path()).collect();
        paths.sort();
        for p in paths {
            if p.extension().map(|e| e == "json").unwrap_or(false) {
                match std::fs::read_to_string(&p).ok().and_then(|s| serde_json::from_str::<ReplayFile>(&s).ok()) {
                    Some(r) => out.push((p, r)),
                    None => {
                        eprintln!("harness: unreadable replay file {}", p.display());
                        std::process::exit(2);
                    }
                }
            }
        }
    }
    out
}

pub fn save_found(prop: &str, v: &Violation) -> PathBuf {
    let dir = verif_root().join("work").join("found").join(prop);
    let _ = std::fs::create_dir_all(&dir);
    let name = format!("{:016x}.json", fnv64(v.signature.as_bytes()) ^ fnv64(v.case.to_string().as_bytes()));
    let path = dir.join(name);
    let rf = ReplayFile {
        property:  prop.to_string(),
        signature: v.signature.clone(),
        detail:    v.detail.clone(),
        case:      v.case.clone(),
    };
    std::fs::write(&path, serde_json::to_string_pretty(&rf).unwrap() + "\n").expect("write replay");
    path
}

//! Program generators (all driven by a `Chooser`, i.e. by proptest-generated choice streams).
//! Programs are built by construction, never by rejection.

use crate::{
    asm::{self, op, push, push_n, push_u, Ins},
    core::Chooser,
    corpus,
    decode::{assigned, stack_io},
    refword::W,
};

pub struct B {
    pub ins:    Vec<Ins>,
    /// abstract stack depth on the current straight-line path
    pub depth:  usize,
    pub labels: usize,
}

impl B {
    pub fn new() -> B {
        B {
            ins:    vec![],
            depth:  0,
            labels: 0,
        }
    }
    pub fn label(&mut self) -> usize {
        self.labels += 1;
        self.labels
    }
    pub fn push(&mut self, w: W) {
        self.ins.push(push(w));
        self.depth += 1;
    }
    pub fn push_wide(&mut self, w: W, ch: &mut Chooser) {
        // sometimes with a wider PUSH than necessary (leading zero bytes), sometimes PUSH0
        if w.is_zero() && ch.chance(1, 3) {
            self.ins.push(op(asm::PUSH0));
        } else if ch.chance(1, 5) {
            let n = ch.range(1, 32);
            self.ins.push(push_n(w, n));
        } else {
            self.ins.push(push(w));
        }
        self.depth += 1;
    }
    pub fn push_label(&mut self, l: usize) {
        self.ins.push(Ins::PushLabel(l));
        self.depth += 1;
    }
    pub fn place(&mut self, l: usize) {
        self.ins.push(Ins::Label(l));
    }
    /// emit an opcode, first pushing small constants when the stack is too shallow
    pub fn emit(&mut self, b: u8) {
        let (pops, pushes) = stack_io(b);
        while self.depth < pops {
            self.push(W::from_u64(self.depth as u64 + 1));
        }
        self.ins.push(op(b));
        self.depth = self.depth - pops + pushes;
    }
    pub fn raw(&mut self, bytes: Vec<u8>) {
        self.ins.push(Ins::Raw(bytes));
    }
    /// bring the depth to `d` with POPs / PUSHes
    pub fn level(&mut self, d: usize) {
        while self.depth > d {
            self.emit(asm::POP);
        }
        while self.depth < d {
            self.push(W::ZERO);
        }
    }
    pub fn code(&self) -> Vec<u8> {
        asm::assemble(&self.ins)
    }
}

impl Default for B {
    fn default() -> Self {
        Self::new()
    }
}

pub const ALU2: [u8; 19] = [
    0x01, 0x02, 0x03, 0x04, 0x05, 0x06, 0x07, 0x0a, 0x10, 0x11, 0x12, 0x13, 0x14, 0x16, 0x17, 0x18, 0x1b, 0x1c, 0x1d,
];
pub const ALU2_EXTRA: [u8; 2] = [0x0b, 0x1a]; // SIGNEXTEND, BYTE
pub const ALU3: [u8; 2] = [0x08, 0x09];
pub const ALU1: [u8; 2] = [0x15, 0x19];

// ------------------------------------------------------------------------------------------------
// G-raw
// ------------------------------------------------------------------------------------------------

pub fn g_raw(ch: &mut Chooser) -> Vec<u8> {
    let len = match ch.below(12) {
        0 => ch.range(300, 3000),
        1 | 2 => ch.range(60, 300),
        _ => ch.range(1, 60),
    };
    let assigned_only = ch.chance(1, 2);
    let mut out = Vec::with_capacity(len);
    while out.len() < len {
        let r = ch.next();
        let mut b = r as u8;
        if assigned_only && !assigned(b) {
            b = (r >> 8) as u8;
            if !assigned(b) {
                b = 0x5b;
            }
        }
        out.push(b);
    }
    out
}

// ------------------------------------------------------------------------------------------------
// C07-style: stack-safe, loop-free programs over constants
// ------------------------------------------------------------------------------------------------

#[derive(Clone, Debug)]
pub enum KeyForm {
    Literal,
    /// PUSH b PUSH a ADD  (a + b == key)
    Sum(W, W),
    /// PUSH b PUSH a SUB  (a - b == key)
    Diff(W, W),
    /// PUSH v PUSH s SHL (v << s == key)
    Shl(W, W),
}

pub struct ConstOpts {
    pub max_jumpi:     usize,
    pub computed_keys: bool,
    /// 0 = none; 1 = SIGNEXTEND; 2 = ADDMOD/MULMOD; 3 = BYTE (one decomposed family per program)
    pub extra_alu:     u8,
    pub len:           usize,
}

pub struct ConstProg {
    pub b:      B,
    pub keys:   Vec<(W, KeyForm)>,
    pub jumpis: usize,
    pub ops:    Vec<u8>,
}

fn emit_key(p: &mut ConstProg, ch: &mut Chooser) {
    let i = ch.below(p.keys.len());
    let (k, form) = p.keys[i].clone();
    match form {
        KeyForm::Literal => p.b.push_wide(k, ch),
        KeyForm::Sum(a, b) => {
            p.b.push(b);
            p.b.push(a);
            p.b.emit(asm::ADD);
        }
        KeyForm::Diff(a, b) => {
            p.b.push(b);
            p.b.push(a);
            p.b.emit(asm::SUB);
        }
        KeyForm::Shl(v, s) => {
            p.b.push(v);
            p.b.push(s);
            p.b.emit(asm::SHL);
        }
    }
}

fn const_block(p: &mut ConstProg, ch: &mut Chooser, n: usize, opts: &ConstOpts, nest: usize) {
    for _ in 0..n {
        match ch.below(24) {
            0..=3 => {
                let w = ch.word();
                p.b.push_wide(w, ch);
            }
            4..=9 => {
                // binary ALU, usually with fresh boundary operands
                let o = if opts.extra_alu == 1 && ch.chance(1, 5) {
                    0x0b
                } else if opts.extra_alu == 3 && ch.chance(1, 5) {
                    0x1a
                } else {
                    *ch.pick(&ALU2)
                };
                if ch.chance(2, 3) {
                    let w = ch.word();
                    p.b.push_wide(w, ch);
                }
                if ch.chance(2, 3) {
                    let w = if matches!(o, 0x1b | 0x1c | 0x1d | 0x1a | 0x0b) && ch.chance(2, 3) {
                        // shift amounts / byte indices around the interesting boundaries
                        W::from_u64(*ch.pick(&[0u64, 1, 7, 8, 30, 31, 32, 33, 255, 256, 257, 1 << 32]))
                    } else {
                        ch.word()
                    };
                    p.b.push_wide(w, ch);
                }
                p.b.emit(o);
                p.ops.push(o);
            }
            10 => {
                let o = *ch.pick(&ALU1);
                p.b.emit(o);
                p.ops.push(o);
            }
            11 | 12 if opts.extra_alu == 2 => {
                let o = *ch.pick(&ALU3);
                for _ in 0..ch.below(4) {
                    let w = ch.word();
                    p.b.push_wide(w, ch);
                }
                p.b.emit(o);
                p.ops.push(o);
            }
            12 | 13 => {
                let n = ch.range(1, 16);
                let o = 0x7f + n as u8;
                p.b.emit(o);
                p.ops.push(o);
            }
            14 | 15 => {
                let n = ch.range(1, 16);
                let o = 0x8f + n as u8;
                p.b.emit(o);
                p.ops.push(o);
            }
            16 => {
                if p.b.depth > 0 {
                    p.b.emit(asm::POP);
                }
            }
            17 => {
                // MSTORE / MLOAD at a word-aligned offset < 2^16, literal or computed
                let off = 32 * ch.below(2048) as u64;
                let store = ch.chance(1, 2);
                if store && p.b.depth == 0 {
                    let w = ch.word();
                    p.b.push(w);
                }
                if ch.chance(1, 3) {
                    let a = ch.below(off as usize + 1) as u64;
                    p.b.push(W::from_u64(a));
                    p.b.push(W::from_u64(off - a));
                    p.b.emit(asm::ADD);
                } else {
                    p.b.push(W::from_u64(off));
                }
                p.b.emit(if store { asm::MSTORE } else { asm::MLOAD });
                p.ops.push(if store { asm::MSTORE } else { asm::MLOAD });
            }
            18 | 19 => {
                // SSTORE
                if p.b.depth == 0 || ch.chance(1, 2) {
                    let w = ch.word();
                    p.b.push_wide(w, ch);
                }
                emit_key(p, ch);
                p.b.emit(asm::SSTORE);
                p.ops.push(asm::SSTORE);
            }
            20 => {
                emit_key(p, ch);
                p.b.emit(asm::SLOAD);
                p.ops.push(asm::SLOAD);
            }
            21 => {
                let o = if ch.chance(1, 2) { asm::PC } else { asm::CODESIZE };
                p.b.emit(o);
                p.ops.push(o);
            }
            22 if p.jumpis < opts.max_jumpi && nest < 3 => {
                // if-block: both outcomes are explored whatever the condition is
                p.jumpis += 1;
                if p.b.depth == 0 || ch.chance(1, 2) {
                    let w = ch.word();
                    p.b.push(w);
                }
                let l = p.b.label();
                let computed = ch.chance(1, 4);
                p.b.push_label(l);
                if computed {
                    // (L + k) - k
                    let k = W::from_u64(ch.below(1000) as u64);
                    p.b.push(k);
                    p.b.emit(asm::ADD);
                    p.b.push(k);
                    p.b.emit(asm::SWAP1);
                    p.b.emit(asm::SUB);
                }
                p.b.emit(asm::JUMPI);
                p.ops.push(asm::JUMPI);
                let entry = p.b.depth;
                let body = ch.range(1, 6);
                const_block(p, ch, body, opts, nest + 1);
                p.b.level(entry);
                p.b.place(l);
            }
            23 if nest < 3 => {
                // jump over dead code
                let l = p.b.label();
                p.b.push_label(l);
                p.b.emit(asm::JUMP);
                p.ops.push(asm::JUMP);
                let entry = p.b.depth;
                // dead code: stores to a marker key that must never show up
                p.b.push(W::from_u64(0xdead));
                p.b.push(W::from_u64(0xdead_0000 + p.b.labels as u64));
                p.b.emit(asm::SSTORE);
                p.b.level(entry);
                p.b.place(l);
            }
            _ => {
                let w = ch.word();
                p.b.push_wide(w, ch);
            }
        }
    }
}

pub fn g_const(ch: &mut Chooser, opts: &ConstOpts) -> ConstProg {
    let mut keys: Vec<(W, KeyForm)> = vec![];
    let nkeys = ch.range(1, 4);
    for _ in 0..nkeys {
        let k = ch.word();
        if keys.iter().any(|(x, _)| *x == k) {
            continue;
        }
        let form = if opts.computed_keys && ch.chance(1, 2) {
            match ch.below(3) {
                0 => {
                    let a = ch.word();
                    KeyForm::Sum(a, k.sub(a))
                }
                1 => {
                    let b = ch.word();
                    KeyForm::Diff(k.add(b), b)
                }
                _ => {
                    // v << s == k: take s = trailing zeros (bounded), v = k >> s
                    let mut s = 0u32;
                    while s < 255 && !k.bit(s) && !k.is_zero() {
                        s += 1;
                    }
                    let s = if s == 0 { 0 } else { ch.below(s as usize + 1) as u32 };
                    KeyForm::Shl(k.shr(W::from_u64(s as u64)), W::from_u64(s as u64))
                }
            }
        } else {
            KeyForm::Literal
        };
        keys.push((k, form));
    }
    let mut p = ConstProg {
        b: B::new(),
        keys,
        jumpis: 0,
        ops: vec![],
    };
    let n = ch.range(1, opts.len);
    const_block(&mut p, ch, n, opts, 0);
    // end: usually STOP, sometimes run off the end or RETURN
    match ch.below(4) {
        0 => {}
        1 => {
            p.b.push(W::ZERO);
            p.b.push(W::ZERO);
            p.b.emit(asm::RETURN);
        }
        _ => p.b.emit(asm::STOP),
    }
    if p.b.ins.is_empty() {
        p.b.emit(asm::STOP);
    }
    p
}

// ------------------------------------------------------------------------------------------------
// G-mutreal: byte-level mutations of the committed real-contract corpus
// ------------------------------------------------------------------------------------------------

pub fn g_mutreal(ch: &mut Chooser, max_len: usize) -> (String, Vec<u8>) {
    let all = corpus::corpus();
    let candidates: Vec<&(String, Vec<u8>)> = all.iter().collect();
    if candidates.is_empty() {
        return ("empty".into(), vec![0x00]);
    }
    let (name, code) = candidates[ch.below(candidates.len())];
    // prefer prefixes: a full real contract costs 0.1-3 s
    let mut code: Vec<u8> = if code.len() > max_len {
        let start = if ch.chance(1, 3) { ch.below(code.len() - max_len) } else { 0 };
        code[start..start + max_len].to_vec()
    } else {
        code.clone()
    };
    let muts = ch.below(4);
    for _ in 0..muts {
        if code.is_empty() {
            break;
        }
        let at = ch.below(code.len());
        match ch.below(5) {
            0 => code[at] ^= 1 << ch.below(8),
            1 => {
                // splice a boundary PUSH
                let w = ch.word();
                let b = w.to_be_bytes();
                let n = w.byte_len().max(1);
                let mut ins = vec![0x5f + n as u8];
                ins.extend_from_slice(&b[32 - n..]);
                code.splice(at..at, ins);
            }
            2 => code.truncate(at.max(1)),
            3 => {
                let len = ch.range(1, 40).min(code.len() - at);
                let block: Vec<u8> = code[at..at + len].to_vec();
                code.splice(at..at, block);
            }
            _ => code[at] = ch.next() as u8,
        }
    }
    if code.is_empty() {
        code.push(0);
    }
    (name.clone(), code)
}

pub fn push_u64(b: &mut B, v: u64) {
    b.ins.push(push_u(v));
    b.depth += 1;
}

// ------------------------------------------------------------------------------------------------
// G-struct: stack-aware sequences over the whole opcode table, boundary operands
// ------------------------------------------------------------------------------------------------

pub fn g_struct(ch: &mut Chooser, max_len: usize) -> B {
    let mut b = B::new();
    let n = ch.range(1, max_len);
    let mut open_labels: Vec<usize> = vec![];
    let mut placed: Vec<usize> = vec![];
    for _ in 0..n {
        match ch.below(16) {
            0..=3 => {
                let w = ch.word();
                b.push_wide(w, ch);
            }
            4..=10 => {
                // any assigned opcode other than jumps/pushes; operands are usually fresh boundary words
                let mut o = ch.next() as u8;
                if !assigned(o) || matches!(o, 0x56 | 0x57 | 0x5b | 0x5f..=0x7f) {
                    o = *ch.pick(&ALU2);
                }
                let (pops, _) = stack_io(o);
                let fresh = ch.below(pops.min(4) + 1);
                for _ in 0..fresh {
                    let w = ch.word();
                    b.push_wide(w, ch);
                }
                b.emit(o);
            }
            11 => {
                // storage through a masked / shifted / hashed expression with hostile constants
                let w = ch.word();
                b.push(w);
                let k = ch.word();
                b.push(k);
                b.emit(asm::SLOAD);
                b.emit(*ch.pick(&[asm::AND, asm::SHR, asm::SHL, asm::DIV, asm::MUL, asm::OR]));
                let k2 = if ch.chance(1, 2) { k } else { ch.word() };
                b.push(k2);
                b.emit(asm::SSTORE);
            }
            12 => {
                // forward conditional jump
                let l = b.label();
                if b.depth == 0 {
                    b.emit(asm::CALLDATASIZE);
                }
                b.push_label(l);
                b.emit(asm::JUMPI);
                open_labels.push(l);
            }
            13 => {
                if let Some(l) = open_labels.pop() {
                    b.place(l);
                    placed.push(l);
                } else {
                    let l = b.label();
                    b.place(l);
                    placed.push(l);
                }
            }
            14 => {
                // backward jump (a loop; the limits bound it)
                if !placed.is_empty() {
                    let l = *ch.pick(&placed);
                    if ch.chance(1, 2) {
                        if b.depth == 0 {
                            b.emit(asm::CALLDATASIZE);
                        }
                        b.push_label(l);
                        b.emit(asm::JUMPI);
                    } else {
                        b.push_label(l);
                        b.emit(asm::JUMP);
                    }
                }
            }
            _ => {
                // jump to a hostile constant
                let w = ch.word();
                b.push(w);
                b.emit(if ch.chance(1, 2) { asm::JUMP } else { asm::JUMPI });
            }
        }
    }
    for l in open_labels {
        b.place(l);
    }
    if ch.chance(1, 2) {
        b.emit(asm::STOP);
    }
    if b.ins.is_empty() {
        b.emit(asm::STOP);
    }
    b
}

// ------------------------------------------------------------------------------------------------
// G-cf: control-flow shapes with marker stores in every block
// ------------------------------------------------------------------------------------------------

#[derive(Clone, Debug, PartialEq, Eq)]
pub struct CfBlock {
    pub label:  usize,
    pub marker: u64,
    /// the block starts with a JUMPDEST (a valid target)
    pub valid:  bool,
}

pub struct CfProg {
    pub b:        B,
    pub blocks:   Vec<CfBlock>,
    pub features: Vec<&'static str>,
    pub has_back_edge: bool,
}

pub const MARKER_BASE: u64 = 0xb10c_0000;

pub struct CfOpts {
    pub back_edges: bool,
    pub faults:     bool,
    /// the code may end in a PUSH32 cut short whose partial immediate holds a JUMPDEST byte
    pub trunc_tail: bool,
    pub max_blocks: usize,
}

pub fn g_cf(ch: &mut Chooser, opts: &CfOpts) -> CfProg {
    let mut p = CfProg {
        b: B::new(),
        blocks: vec![],
        features: vec![],
        has_back_edge: false,
    };
    let nblocks = ch.range(2, opts.max_blocks);
    // labels: block starts, plus a push-data label
    let block_labels: Vec<usize> = (0..nblocks).map(|_| p.b.label()).collect();
    let data_label = p.b.label();
    let mut data_emitted = false;
    // the code may end in a PUSH32 cut short whose partial immediate holds a JUMPDEST byte followed by
    // a marker store: still push data, never a jump destination
    let trunc_label = p.b.label();
    let with_trunc = opts.trunc_tail && ch.chance(1, 5);
    for bi in 0..nblocks {
        let valid = bi == 0 || ch.chance(4, 5);
        let marker = MARKER_BASE + bi as u64;
        if bi > 0 || ch.chance(1, 2) {
            if valid {
                p.b.place(block_labels[bi]);
            } else {
                p.b.ins.push(Ins::Mark(block_labels[bi]));
            }
        } else {
            p.b.ins.push(Ins::Mark(block_labels[bi]));
        }
        p.b.depth = 0;
        p.blocks.push(CfBlock {
            label: block_labels[bi],
            marker,
            valid: valid && (bi > 0 || matches!(p.b.ins.last(), Some(Ins::Label(_)))),
        });
        // marker store
        push_u64(&mut p.b, 1);
        push_u64(&mut p.b, marker);
        p.b.emit(asm::SSTORE);
        // occasionally a push whose data contains JUMPDEST bytes
        if !data_emitted && ch.chance(1, 3) {
            p.b.ins.push(Ins::PushData(data_label, vec![0x5b, 0x5b, 0x5b]));
            p.b.depth += 1;
            p.b.emit(asm::POP);
            data_emitted = true;
        }
        if opts.faults && ch.chance(1, 12) {
            // stack underflow
            p.b.level(0);
            p.b.ins.push(op(asm::POP));
            p.features.push("fault:underflow");
        }
        if opts.faults && ch.chance(1, 60) {
            if ch.chance(1, 2) {
                for _ in 0..1025 {
                    p.b.ins.push(op(asm::PUSH0));
                }
                p.features.push("fault:overflow");
            } else {
                // exactly full, then one more item through DUPn (or not quite full: no error)
                p.b.level(0);
                let n = *ch.pick(&[1024usize, 1024, 1023]);
                for _ in 0..n {
                    p.b.ins.push(op(asm::PUSH0));
                }
                p.b.ins.push(op(asm::DUP1 + ch.below(16) as u8));
                p.features.push("fault:overflow-by-dup");
            }
        }
        p.b.level(0);
        // terminator
        let via_jumpi = ch.chance(1, 2);
        let emit_jump = |p: &mut CfProg, ch: &mut Chooser| {
            if via_jumpi {
                // condition first (symbolic), then the target is pushed by the caller before this
                p.b.emit(asm::JUMPI);
            } else {
                p.b.emit(asm::JUMP);
            }
            let _ = ch;
        };
        let push_cond = |p: &mut CfProg| {
            if via_jumpi {
                p.b.emit(asm::CALLDATASIZE);
            }
        };
        match ch.below(17) {
            16 => {
                // PC-relative: the target is computed from the PC instruction's own offset
                let t = if opts.back_edges || bi + 1 >= nblocks { ch.below(nblocks) } else { ch.range(bi + 1, nblocks - 1) };
                let t = if !opts.back_edges && t <= bi { nblocks - 1 } else { t };
                push_cond(&mut p);
                let m = p.b.label();
                p.b.ins.push(Ins::Mark(m));
                p.b.emit(asm::PC);
                p.b.ins.push(Ins::PushLabelDiff(block_labels[t], m));
                p.b.depth += 1;
                p.b.emit(asm::ADD);
                emit_jump(&mut p, ch);
                if t <= bi {
                    p.has_back_edge = true;
                    p.features.push("back-edge");
                }
                p.features.push("pc-relative-target");
            }
            0 | 1 => {} // fall through
            2..=4 => {
                // valid forward target
                let t = ch.range(bi + 1, nblocks.max(bi + 2) - 1).min(nblocks - 1);
                push_cond(&mut p);
                p.b.push_label(block_labels[t]);
                emit_jump(&mut p, ch);
                p.features.push(if via_jumpi { "jumpi:label" } else { "jump:label" });
            }
            5 if opts.back_edges && bi > 0 => {
                let t = ch.below(bi + 1);
                push_cond(&mut p);
                p.b.push_label(block_labels[t]);
                emit_jump(&mut p, ch);
                p.has_back_edge = true;
                p.features.push("back-edge");
            }
            6 => {
                push_cond(&mut p);
                if with_trunc && ch.chance(1, 2) {
                    p.b.push_label(trunc_label);
                    p.features.push("jump:truncated-push-data");
                } else {
                    p.b.push_label(data_label);
                }
                emit_jump(&mut p, ch);
                p.features.push(if via_jumpi { "jumpi:push-data" } else { "jump:push-data" });
            }
            7 => {
                // out of range
                push_cond(&mut p);
                let w = *ch.pick(&[
                    W::from_u64(0xffff),
                    W::from_u64(0x10000),
                    W::from_u64(u32::MAX as u64),
                    W::from_u64(u64::MAX),
                    W::MAX,
                    W::pow2(255),
                ]);
                p.b.push(w);
                emit_jump(&mut p, ch);
                p.features.push(if via_jumpi { "jumpi:out-of-range" } else { "jump:out-of-range" });
            }
            8 => {
                // >= 2^32 with valid low bits
                let t = ch.below(nblocks);
                push_cond(&mut p);
                if ch.chance(1, 3) {
                    p.b.ins.push(Ins::PushLabelHigh(block_labels[t]));
                } else {
                    // any bit from 32 up may be the one that makes the target invalid
                    let bit = *ch.pick(&[32u32, 33, 40, 63, 64, 65, 96, 127, 128, 160, 200, 255]);
                    let mut high = W::pow2(bit);
                    if ch.chance(1, 3) {
                        high = high.add(W::pow2(ch.range(32, 255) as u32));
                    }
                    p.b.ins.push(Ins::PushLabelPlus(block_labels[t], high));
                }
                p.b.depth += 1;
                emit_jump(&mut p, ch);
                p.features.push(if via_jumpi { "jumpi:high-bits" } else { "jump:high-bits" });
            }
            9 => {
                // computed constant
                let t = ch.below(nblocks);
                push_cond(&mut p);
                let k = W::from_u64(ch.below(5000) as u64);
                p.b.push_label(block_labels[t]);
                p.b.push(k);
                p.b.emit(asm::ADD);
                p.b.push(k);
                p.b.emit(asm::SWAP1);
                p.b.emit(asm::SUB);
                emit_jump(&mut p, ch);
                p.features.push("computed-target");
            }
            10 => {
                // symbolic target
                push_cond(&mut p);
                p.b.push(W::ZERO);
                p.b.emit(asm::CALLDATALOAD);
                emit_jump(&mut p, ch);
                p.features.push(if via_jumpi { "jumpi:symbolic" } else { "jump:symbolic" });
            }
            11 => {
                // a target that is a non-JUMPDEST instruction: the byte after this block's label
                let t = ch.below(nblocks);
                push_cond(&mut p);
                if p.blocks.get(t).map(|b| !b.valid).unwrap_or(false) || t > bi {
                    p.b.push_label(block_labels[t]);
                } else {
                    p.b.push(W::from_u64(1)); // offset 1 is inside the first PUSH or a non-JUMPDEST
                }
                emit_jump(&mut p, ch);
                p.features.push(if via_jumpi { "jumpi:maybe-non-jumpdest" } else { "jump:maybe-non-jumpdest" });
            }
            12 => {
                p.b.emit(asm::STOP);
                p.features.push("halt:stop");
            }
            13 => {
                push_u64(&mut p.b, 0);
                push_u64(&mut p.b, 0);
                p.b.emit(if ch.chance(1, 2) { asm::RETURN } else { asm::REVERT });
                p.features.push("halt:return/revert");
            }
            14 => {
                if ch.chance(1, 2) {
                    p.b.emit(asm::CALLER);
                    p.b.emit(asm::SELFDESTRUCT);
                    p.features.push("halt:selfdestruct");
                } else {
                    p.b.emit(asm::INVALID);
                    p.features.push("halt:invalid");
                }
            }
            _ => {
                let bad = *ch.pick(&[0x0cu8, 0x1e, 0x21, 0x49, 0x5c, 0xa5, 0xb0, 0xef, 0xf6, 0xfb]);
                p.b.raw(vec![bad]);
                p.features.push("halt:unassigned");
            }
        }
    }
    if with_trunc {
        p.b.emit(asm::STOP);
        p.b.raw(vec![0x7f]);
        p.b.ins.push(Ins::Mark(trunc_label));
        p.b.raw(vec![0x5b, 0x60, 0x01, 0x60, (MARKER_BASE + 90) as u8, 0x55, 0x00]);
        p.features.push("truncated-trailing-push");
    }
    p
}

// ------------------------------------------------------------------------------------------------
// G-loop
// ------------------------------------------------------------------------------------------------

pub struct LoopProg {
    pub b:     B,
    pub shape: &'static str,
}

pub fn g_loop(ch: &mut Chooser) -> LoopProg {
    let mut b = B::new();
    let shape = *ch.pick(&[
        "tight",
        "nested",
        "self-jump",
        "jump-table",
        "stack-grower",
        "fork-bomb",
        "read-mask-write",
        "running-value",
        "mixed",
    ]);
    match shape {
        "tight" => {
            let l = b.label();
            b.place(l);
            let body = ch.below(4);
            for _ in 0..body {
                let w = ch.word();
                b.push(w);
                b.emit(asm::POP);
            }
            if ch.chance(1, 2) {
                b.emit(asm::CALLDATASIZE);
                b.push_label(l);
                b.emit(asm::JUMPI);
            } else {
                b.push_label(l);
                b.emit(asm::JUMP);
            }
        }
        "nested" => {
            let depth = ch.range(2, 4);
            let labels: Vec<usize> = (0..depth).map(|_| b.label()).collect();
            for l in &labels {
                b.place(*l);
                b.push(W::ONE);
                b.emit(asm::POP);
            }
            for l in labels.iter().rev() {
                b.emit(asm::CALLDATASIZE);
                b.push_label(*l);
                b.emit(asm::JUMPI);
            }
        }
        "self-jump" => {
            // JUMPDEST PUSH self JUMP, and the conditional variant
            let l = b.label();
            b.place(l);
            if ch.chance(1, 2) {
                b.emit(asm::CALLDATASIZE);
                b.push_label(l);
                b.emit(asm::JUMPI);
            }
            b.push_label(l);
            b.emit(asm::JUMP);
        }
        "jump-table" => {
            let n = ch.range(2, 8);
            let labels: Vec<usize> = (0..n).map(|_| b.label()).collect();
            for l in &labels {
                b.push(W::ZERO);
                b.emit(asm::CALLDATALOAD);
                b.push_label(*l);
                b.emit(asm::JUMPI);
            }
            b.emit(asm::STOP);
            for (i, l) in labels.iter().enumerate() {
                b.place(*l);
                b.push(W::from_u64(i as u64));
                b.push(W::from_u64(i as u64));
                b.emit(asm::SSTORE);
                // jump onwards to another entry (possibly backwards)
                let t = *ch.pick(&labels);
                b.push_label(t);
                b.emit(asm::JUMP);
            }
        }
        "stack-grower" => {
            let l = b.label();
            b.place(l);
            let grow = ch.range(1, 5);
            for _ in 0..grow {
                let w = ch.word();
                b.push(w);
            }
            b.emit(asm::CALLDATASIZE);
            b.push_label(l);
            b.emit(asm::JUMPI);
        }
        "fork-bomb" => {
            // chains of JUMPI to shared targets
            let n = ch.range(2, 6);
            let labels: Vec<usize> = (0..n).map(|_| b.label()).collect();
            let rounds = ch.range(2, 12);
            for r in 0..rounds {
                if r % 2 == 0 {
                    b.place(labels[r % n]);
                }
                b.emit(asm::CALLDATASIZE);
                b.push_label(*ch.pick(&labels));
                b.emit(asm::JUMPI);
            }
            for l in &labels {
                b.place(*l);
            }
            b.emit(asm::CALLDATASIZE);
            b.push_label(labels[0]);
            b.emit(asm::JUMPI);
        }
        "read-mask-write" => {
            // slot := (sload(slot) & mask) | caller, possibly between two slots, possibly in a loop
            let l = b.label();
            let looped = ch.chance(1, 2);
            if looped {
                b.place(l);
            }
            let s0 = W::from_u64(ch.below(3) as u64);
            let s1 = W::from_u64(ch.below(3) as u64);
            let mask = *ch.pick(&[W::pow2(160).sub(W::ONE), W::from_u64(0xff), W::pow2(128).sub(W::ONE), W::MAX]);
            b.emit(asm::CALLER);
            b.push(s0);
            b.emit(asm::SSTORE);
            b.push(mask);
            b.push(s0);
            b.emit(asm::SLOAD);
            b.emit(asm::AND);
            b.push(s1);
            b.emit(asm::SSTORE);
            b.push(s1);
            b.emit(asm::SLOAD);
            b.push(s0);
            b.emit(asm::SSTORE);
            if looped {
                b.emit(asm::CALLDATASIZE);
                b.push_label(l);
                b.emit(asm::JUMPI);
            }
        }
        "running-value" => {
            // a loop that squares / adds / hashes a running value
            b.emit(asm::CALLVALUE);
            let l = b.label();
            b.place(l);
            match ch.below(4) {
                0 => {
                    b.emit(asm::DUP1);
                    b.emit(asm::MUL);
                }
                1 => {
                    b.emit(asm::DUP1);
                    b.emit(asm::ADD);
                }
                2 => {
                    b.push(W::ZERO);
                    b.emit(asm::MSTORE);
                    b.push(W::from_u64(32));
                    b.push(W::ZERO);
                    b.emit(asm::SHA3);
                }
                _ => {
                    b.emit(asm::DUP1);
                    b.emit(asm::DUP1);
                    b.emit(asm::MUL);
                    b.emit(asm::ADD);
                }
            }
            if ch.chance(1, 2) {
                b.emit(asm::DUP1);
                b.push(W::from_u64(ch.below(4) as u64));
                b.emit(asm::SSTORE);
            }
            b.emit(asm::CALLDATASIZE);
            b.push_label(l);
            b.emit(asm::JUMPI);
        }
        _ => {
            let inner = g_struct(ch, 40);
            return LoopProg { b: inner, shape: "mixed" };
        }
    }
    if ch.chance(1, 2) {
        b.emit(asm::STOP);
    }
    LoopProg { b, shape }
}

//! Entry points shared by the libFuzzer targets in /verif/fuzz and by the runner's fuzz stage.
//!
//! Two kinds of target:
//!
//! * `fz_prop` (generic, selected by the environment variable VCHECK_FUZZ_PROP): the fuzzer's bytes are
//!   a choice stream. Byte 0 selects one of the property's generator streams (the k-th `drive` call of
//!   its `run_shard`), the rest is read as little-endian u32 choices and handed to exactly the closure
//!   the proptest driver runs, so generator, oracle, known-finding handling and replay format are the
//!   ones of the property check; only the search strategy differs (coverage-guided mutation of the
//!   choices instead of proptest's random draws).
//! * `fz_c10` / `fz_c01`: the bytes are the contract code itself (C10: the whole input; C01: 32 bytes of
//!   configuration choices followed by the code).
//!
//! A failure that is not a listed known finding is saved as a replay file under work/found/<ID>/ and the
//! process aborts, so that libFuzzer keeps the input; the runner then re-checks the saved case through
//! the property's `replay` (bypassing the fuzzer) before it reports it.

use crate::{
    core::{Acc, CaseResult, Chooser, FuzzState, KnownFindings, ShardCtx, Tier, Violation, FUZZ, FUZZ_SHARD},
    props::{self, PropDef},
};
use std::{cell::RefCell, collections::HashMap};

pub fn choices(data: &[u8]) -> Vec<u32> {
    data.chunks(4)
        .map(|c| {
            let mut b = [0u8; 4];
            b[..c.len()].copy_from_slice(c);
            u32::from_le_bytes(b)
        })
        .collect()
}

thread_local! {
    static KNOWN: KnownFindings = KnownFindings::load();
    static PROPS: RefCell<HashMap<String, (PropDef, usize)>> = RefCell::new(HashMap::new());
}

fn enter(p: &PropDef, st: FuzzState, acc: &mut Acc) -> FuzzState {
    FUZZ.with(|f| *f.borrow_mut() = Some(st));
    KNOWN.with(|known| {
        let ctx = ShardCtx {
            prop: p.id,
            tier: Tier::Quick,
            seed: 0,
            shard: FUZZ_SHARD,
            known,
            inflight: None,
        };
        (p.run_shard)(&ctx, acc);
    });
    FUZZ.with(|f| f.borrow_mut().take().unwrap())
}

/// number of generator streams (`drive` calls) of a property
pub fn streams(prop: &str) -> usize {
    with_prop(prop, |_, n| n)
}

fn with_prop<T>(prop: &str, f: impl FnOnce(&PropDef, usize) -> T) -> T {
    PROPS.with(|m| {
        let mut m = m.borrow_mut();
        if !m.contains_key(prop) {
            let p = props::find(prop).unwrap_or_else(|| panic!("unknown property {prop}"));
            let st = enter(
                &p,
                FuzzState {
                    choices: vec![],
                    select:  usize::MAX,
                    seen:    0,
                    result:  None,
                },
                &mut Acc::new(),
            );
            m.insert(prop.to_string(), (p, st.seen));
        }
        let (p, n) = m.get(prop).unwrap();
        f(p, *n)
    })
}

/// Run one fuzzer input against a property through its own generator closure.
pub fn prop_input(prop: &str, data: &[u8], acc: &mut Acc) -> CaseResult {
    if data.len() < 2 {
        return CaseResult::Pass;
    }
    crate::core::install_panic_hook_once();
    with_prop(prop, |p, n| {
        if n == 0 {
            return CaseResult::Pass;
        }
        let st = enter(
            p,
            FuzzState {
                choices: choices(&data[1..]),
                select:  data[0] as usize % n,
                seen:    0,
                result:  None,
            },
            acc,
        );
        st.result.unwrap_or(CaseResult::Pass)
    })
}

pub fn c10_input(data: &[u8], acc: &mut Acc) -> CaseResult {
    if data.is_empty() || data.len() > 24_576 {
        return CaseResult::Pass;
    }
    crate::core::install_panic_hook_once();
    acc.case();
    props::c10::check_bytes(data, acc)
}

/// the first 32 bytes select the configuration and the API path, the rest is the contract code itself
pub fn c01_input(data: &[u8], acc: &mut Acc) -> CaseResult {
    if data.len() < 33 || data.len() > 32 + 4_096 {
        return CaseResult::Pass;
    }
    crate::core::install_panic_hook_once();
    let cfg_choices = choices(&data[..32]);
    let mut ch = Chooser::new(&cfg_choices);
    let cfg = crate::subj::VmCfg::generate(&mut ch);
    let case = props::c01::Case {
        bytes: data[32..].to_vec(),
        cfg,
        gen: "fuzz",
        one_call: ch.chance(1, 4),
        real_tc: false,
        deep: 0,
    };
    acc.case();
    props::c01::check_case(&case, acc)
}

/// (target binary, property) -> one input
pub fn one_input(target: &str, prop: &str, data: &[u8], acc: &mut Acc) -> CaseResult {
    match target {
        "fz_c10" => c10_input(data, acc),
        "fz_c01" => c01_input(data, acc),
        _ => prop_input(prop, data, acc),
    }
}

/// What a fuzz target does with one input: tolerate known findings (so that a campaign goes on), save
/// and abort on anything else.
pub fn fuzz_entry(target: &str, prop: &str, data: &[u8]) {
    let mut acc = Acc::new();
    if let CaseResult::Fail(v) = one_input(target, prop, data, &mut acc) {
        let known = KNOWN.with(|k| k.lookup(prop, &v.signature).is_some());
        if !known {
            let path = crate::core::save_found(prop, &Violation::new(v.signature.clone(), v.detail.clone(), v.case.clone()));
            eprintln!("FUZZ-FOUND property={prop} file={}", path.display());
            eprintln!("  signature: {}", v.signature);
            std::process::abort();
        }
    }
}

/// the property a fuzz process works on (VCHECK_FUZZ_PROP), read once
pub fn env_prop() -> &'static str {
    static P: std::sync::OnceLock<String> = std::sync::OnceLock::new();
    P.get_or_init(|| std::env::var("VCHECK_FUZZ_PROP").unwrap_or_else(|_| "C09".into()))
}

/// fuzz targets of a property: (binary, max_len)
pub fn targets_for(prop: &str) -> Vec<(&'static str, usize)> {
    let mut v = vec![];
    match prop {
        "C10" => v.push(("fz_c10", 4_096)),
        "C01" => v.push(("fz_c01", 2_048)),
        _ => {}
    }
    // C16 is a complete enumeration (no generated stream); everything else has at least one
    // C13: one case runs the analysis once per stop index (thousands of analyses), seconds per input
    if prop != "C16" && prop != "C13" {
        v.push(("fz_prop", 4_096));
    }
    v
}

//! G-idiom: a hidden ground-truth storage layout compiled to the access idioms the lifting passes
//! document (and solc emits), each variable read and/or written in its own branch behind a
//! calldata dispatcher.

use crate::{
    asm::{self, Ins},
    core::Chooser,
    gen::B,
    refword::{keccak_words, W},
};
use serde::{Deserialize, Serialize};

#[derive(Clone, Debug, PartialEq, Eq, Serialize, Deserialize)]
pub enum Kind {
    /// a full word
    Plain,
    /// a word the code masks to 160 bits
    Addr,
    /// a mapping whose value is one word holding several fields (a struct that fits a slot): written by one
    /// store of f0 | f1<<o1 | ..., each field read back by shift and mask; `rev_args` takes the fields'
    /// values from the call-data words in reverse order
    MappingStruct { key_addr: bool, fields: Vec<(usize, usize)>, rev_args: bool },
    /// a plain word whose stored value is a masked input scaled by a constant that is not a power of two
    /// (decimals, seconds per day): `slot = (v & mask(width)) * factor`, read back as `slot / factor`
    Scaled { width: usize, factor: W },
    /// keys: true = masked to 160 bits; value_addr: the stored/loaded value is masked to 160 bits
    /// const_key: the outermost-declared (first hashed) key is this pushed constant instead of call data
    Mapping {
        keys: Vec<bool>,
        value_addr: bool,
        #[serde(default)]
        const_key: Option<W>,
    },
    /// `prefolded`: the element base is pushed as the constant keccak(slot) instead of being hashed at run time
    DynArray { prefolded: bool },
    /// fields (bit offset, bit width), non-overlapping, byte aligned
    /// whole: 0 = every field is written by its own read-modify-write; 1 / 2 = all fields are written by one
    /// store of f0 | f1<<o1 | ... with the OR chain nested to the right / to the left
    Packed {
        fields: Vec<(usize, usize)>,
        use_shifts: bool,
        #[serde(default)]
        whole: u8,
        /// how a shift amount is written on the read side: 0 = a literal, 1 = byte offset * 8,
        /// 2 = byte offset << 3 (constant expressions, as unoptimised compiler output has them)
        #[serde(default)]
        shift_expr: u8,
    },
}

#[derive(Clone, Debug, PartialEq, Eq, Serialize, Deserialize)]
pub struct Var {
    pub slot:  W,
    pub kind:  Kind,
    pub read:  bool,
    pub write: bool,
    /// where a stored value comes from: 0 = call data, otherwise an environment word (see `VALUE_SOURCES`)
    #[serde(default)]
    pub src:   u8,
}

/// CALLVALUE, ORIGIN, GASPRICE, TIMESTAMP, NUMBER, CHAINID, SELFBALANCE, GAS, ADDRESS, COINBASE, RETURNDATASIZE
pub const VALUE_SOURCES: [u8; 11] = [0x34, 0x32, 0x3a, 0x42, 0x43, 0x46, 0x47, 0x5a, 0x30, 0x41, 0x3d];

#[derive(Clone, Debug, PartialEq, Eq, Serialize, Deserialize)]
pub struct Truth {
    pub vars: Vec<Var>,
    /// dispatcher shape: 0 = linear selector chain, 1 = binary split, 2 = fall-through order reversed
    pub dispatcher: u8,
}

pub fn mask(bits: usize) -> W {
    if bits >= 256 {
        W::MAX
    } else {
        W::pow2(bits as u32).sub(W::ONE)
    }
}

fn gen_slot(ch: &mut Chooser, used: &[W], small_only: bool) -> W {
    for _ in 0..20 {
        let s = if small_only {
            // the whole documented pre-image table (slots 0..=9999), with its upper edge aimed at
            match ch.below(8) {
                0 => W::from_u64(9_999 - ch.below(3) as u64),
                1..=3 => W::from_u64(ch.below(40) as u64),
                _ => W::from_u64(ch.below(10_000) as u64),
            }
        } else {
            match ch.below(10) {
                0..=4 => W::from_u64(ch.below(40) as u64),
                5 => W::from_u64(ch.below(9_000) as u64),
                6 => W::from_u128((1u128 << 64) + ch.below(1000) as u128),
                7 => W::pow2(128).add(W::from_u64(ch.below(1000) as u64)),
                8 => {
                    // an ERC-7201 / EIP-1967 style hashed constant
                    keccak_words(&[W::from_u64(ch.below(1_000_000) as u64 + 20_000)]).sub(W::ONE)
                }
                _ => ch.random_word(),
            }
        };
        if !used.contains(&s) {
            return s;
        }
    }
    // fall back to a fresh small slot (below the 10000 pre-image table, so that a pre-folded array
    // base stays recognisable)
    let mut s = W::from_u64(9_100);
    while used.contains(&s) && s != W::from_u64(9_999) {
        s = s.add(W::ONE);
    }
    s
}

pub fn gen_fields(ch: &mut Chooser) -> Vec<(usize, usize)> {
    // split the 32 bytes at byte boundaries into 2-6 fields (not necessarily covering the word)
    let n = ch.range(2, 6);
    let widths = [1usize, 1, 2, 4, 8, 12, 16, 20, 20, 24];
    let mut fields = vec![];
    let mut at = if ch.chance(1, 3) { ch.below(4) } else { 0 };
    for _ in 0..n {
        let w = *ch.pick(&widths);
        if at + w > 32 {
            break;
        }
        fields.push((at * 8, w * 8));
        at += w;
        if ch.chance(1, 5) {
            at += ch.below(3);
        }
    }
    if fields.len() < 2 {
        fields = vec![(0, 160), (160, 8)];
    }
    fields
}

pub fn gen_truth(ch: &mut Chooser, max_vars: usize) -> Truth {
    let n = ch.range(1, max_vars);
    let mut used = vec![];
    let mut vars = vec![];
    for _ in 0..n {
        let kind = match ch.below(13) {
            11 | 12 => {
                // often a twin of the previous such mapping: the same equal-width fields filled from the
                // same call-data words in the opposite order (the values are shared between the two)
                let twin = vars.iter().rev().find_map(|v: &Var| match &v.kind {
                    Kind::MappingStruct { fields, rev_args, .. } => Some((fields.clone(), *rev_args)),
                    _ => None,
                });
                let key_addr = ch.chance(1, 2);
                match twin {
                    Some((fields, rev)) if ch.chance(2, 3) => Kind::MappingStruct {
                        key_addr,
                        fields,
                        rev_args: !rev,
                    },
                    _ if ch.chance(1, 2) => {
                        let w = *ch.pick(&[8usize, 16, 32, 64, 128]);
                        let n = ch.range(2, 4).min(256 / w);
                        Kind::MappingStruct {
                            key_addr,
                            fields: (0..n).map(|i| (i * w, w)).collect(),
                            rev_args: ch.chance(1, 2),
                        }
                    }
                    _ => Kind::MappingStruct {
                        key_addr,
                        fields: gen_fields(ch),
                        rev_args: ch.chance(1, 2),
                    },
                }
            }
            10 => Kind::Scaled {
                width:  *ch.pick(&[8usize, 32, 64, 128, 160]),
                factor: *ch.pick(&[
                    W::from_u64(10),
                    W::from_u64(1_000),
                    W::from_u64(10_000),
                    W::from_u64(86_400),
                    W::from_u64(6),
                    W::from_u64(12),
                    W::from_u64(100),
                    W::from_u64(3_600),
                    W::from_u64(1_000_000_000_000_000_000),
                    W::from_u64(3),
                    W::from_u64(255),
                ]),
            },
            0 | 1 => Kind::Plain,
            2 | 3 => Kind::Addr,
            4 | 5 | 6 => {
                let depth = match ch.below(8) {
                    0..=3 => 1,
                    4 | 5 => 2,
                    6 => 3,
                    _ => 4,
                };
                let mut keys: Vec<bool> = (0..depth).map(|_| ch.chance(1, 2)).collect();
                let value_addr = ch.chance(1, 3);
                // a constant first key (m["admin"], m[7]): text left-aligned in the word, a small number or
                // any word
                let const_key = if ch.chance(1, 6) {
                    keys[0] = false;
                    Some(match ch.below(4) {
                        0 | 1 => {
                            let n = ch.range(1, 32);
                            let mut bytes = [0u8; 32];
                            for b in bytes.iter_mut().take(n) {
                                *b = 0x20 + ch.below(0x5f) as u8;
                            }
                            W::from_be_slice(&bytes)
                        }
                        2 => W::from_u64(ch.below(300) as u64),
                        _ => ch.random_word(),
                    })
                } else {
                    None
                };
                Kind::Mapping {
                    keys,
                    value_addr,
                    const_key,
                }
            }
            7 => Kind::DynArray { prefolded: ch.chance(1, 3) },
            _ => {
                let fields = gen_fields(ch);
                let use_shifts = ch.chance(1, 2);
                let whole = if ch.chance(1, 4) { 1 + ch.below(2) as u8 } else { 0 };
                let shift_expr = if ch.chance(1, 3) { 1 + ch.below(2) as u8 } else { 0 };
                Kind::Packed {
                    fields,
                    use_shifts,
                    whole,
                    shift_expr,
                }
            }
        };
        let small = matches!(kind, Kind::DynArray { prefolded: true });
        let slot = gen_slot(ch, &used, small);
        used.push(slot);
        let (read, write) = match ch.below(3) {
            0 => (true, false),
            1 => (false, true),
            _ => (true, true),
        };
        let src = if ch.chance(1, 4) { 1 + ch.below(VALUE_SOURCES.len() + 3) as u8 } else { 0 };
        vars.push(Var { slot, kind, read, write, src });
    }
    Truth {
        vars,
        dispatcher: ch.below(3) as u8,
    }
}

// ------------------------------------------------------------------------------------------------
// code generation
// ------------------------------------------------------------------------------------------------

/// push calldata word number `n` (after the selector), optionally masked to 160 bits
/// a stored value: call-data word `n`, or the variable's environment word
fn value(b: &mut B, v: &Var, n: usize, addr: bool) {
    if v.src == 0 {
        arg(b, n, addr);
    } else if v.src as usize > VALUE_SOURCES.len() {
        // a word copied into memory from the code, the return data or the call data, then loaded
        let copy = [asm::CODECOPY, asm::RETURNDATACOPY, asm::CALLDATACOPY][(v.src as usize - VALUE_SOURCES.len() - 1) % 3];
        b.push(W::from_u64(32));
        b.push(W::ZERO);
        b.push(W::ZERO);
        b.emit(copy);
        b.push(W::ZERO);
        b.emit(asm::MLOAD);
        if addr {
            b.push(mask(160));
            b.emit(asm::AND);
        }
    } else {
        b.emit(VALUE_SOURCES[(v.src as usize - 1) % VALUE_SOURCES.len()]);
        if addr {
            b.push(mask(160));
            b.emit(asm::AND);
        }
    }
}

fn arg(b: &mut B, n: usize, addr: bool) {
    b.push(W::from_u64(4 + 32 * n as u64));
    b.emit(asm::CALLDATALOAD);
    if addr {
        b.push(mask(160));
        b.emit(asm::AND);
    }
}

/// return the word on top of the stack
fn ret_top(b: &mut B) {
    b.push(W::ZERO);
    b.emit(asm::MSTORE);
    b.push(W::from_u64(32));
    b.push(W::ZERO);
    b.emit(asm::RETURN);
}

/// leaves keccak(key_d . keccak(... keccak(key_1 . slot))) on the stack
fn mapping_location(b: &mut B, slot: W, keys: &[bool], const_key: &Option<W>) {
    for (i, k) in keys.iter().enumerate() {
        // key
        if let (0, Some(c)) = (i, const_key) {
            b.push(*c);
        } else if *k && i == 0 && keys.len() % 2 == 1 {
            b.emit(asm::CALLER);
        } else {
            arg(b, i, *k);
        }
        b.push(W::ZERO);
        b.emit(asm::MSTORE);
        if i == 0 {
            b.push(slot);
        }
        // the previous hash (or the slot) is on top of the stack
        b.push(W::from_u64(32));
        b.emit(asm::MSTORE);
        b.push(W::from_u64(64));
        b.push(W::ZERO);
        b.emit(asm::SHA3);
    }
}

fn array_location(b: &mut B, slot: W, prefolded: bool) {
    if prefolded {
        b.push(keccak_words(&[slot]));
    } else {
        b.push(slot);
        b.push(W::ZERO);
        b.emit(asm::MSTORE);
        b.push(W::from_u64(32));
        b.push(W::ZERO);
        b.emit(asm::SHA3);
    }
    arg(b, 0, false);
    b.emit(asm::ADD);
}

fn emit_read(b: &mut B, v: &Var, field: usize) {
    match &v.kind {
        Kind::Plain => {
            b.push(v.slot);
            b.emit(asm::SLOAD);
            ret_top(b);
        }
        Kind::MappingStruct { key_addr, fields, .. } => {
            let (o, w) = fields[field % fields.len()];
            mapping_location(b, v.slot, &[*key_addr], &None);
            b.emit(asm::SLOAD);
            if o > 0 {
                b.push(W::pow2(o as u32));
                b.emit(asm::SWAP1);
                b.emit(asm::DIV);
            }
            b.push(mask(w));
            b.emit(asm::AND);
            ret_top(b);
        }
        Kind::Scaled { width, factor } => {
            b.push(*factor);
            b.push(v.slot);
            b.emit(asm::SLOAD);
            b.emit(asm::DIV);
            b.push(mask(*width));
            b.emit(asm::AND);
            ret_top(b);
        }
        Kind::Addr => {
            b.push(v.slot);
            b.emit(asm::SLOAD);
            b.push(mask(160));
            b.emit(asm::AND);
            ret_top(b);
        }
        Kind::Mapping { keys, value_addr, const_key } => {
            mapping_location(b, v.slot, keys, const_key);
            b.emit(asm::SLOAD);
            if *value_addr {
                b.push(mask(160));
                b.emit(asm::AND);
            }
            ret_top(b);
        }
        Kind::DynArray { prefolded } => {
            array_location(b, v.slot, *prefolded);
            b.emit(asm::SLOAD);
            ret_top(b);
        }
        Kind::Packed { fields, use_shifts, shift_expr, .. } => {
            let (o, w) = fields[field % fields.len()];
            b.push(v.slot);
            b.emit(asm::SLOAD);
            if o > 0 {
                if *use_shifts {
                    match shift_expr {
                        1 => {
                            b.push(W::from_u64(8));
                            b.push(W::from_u64(o as u64 / 8));
                            b.emit(asm::MUL);
                        }
                        2 => {
                            b.push(W::from_u64(o as u64 / 8));
                            b.push(W::from_u64(3));
                            b.emit(asm::SHL);
                        }
                        _ => b.push(W::from_u64(o as u64)),
                    }
                    b.emit(asm::SHR);
                } else {
                    b.push(W::pow2(o as u32));
                    b.emit(asm::SWAP1);
                    b.emit(asm::DIV);
                }
            }
            b.push(mask(w));
            b.emit(asm::AND);
            ret_top(b);
        }
    }
}

fn emit_write(b: &mut B, v: &Var, field: usize) {
    match &v.kind {
        Kind::MappingStruct { key_addr, fields, rev_args } => {
            let n = fields.len();
            for (i, (o, w)) in fields.iter().enumerate() {
                // call-data word 0 is the key
                let a = if *rev_args { n - i } else { i + 1 };
                arg(b, a, false);
                b.push(mask(*w));
                b.emit(asm::AND);
                if *o > 0 {
                    b.push(W::pow2(*o as u32));
                    b.emit(asm::MUL);
                }
                if i > 0 {
                    b.emit(asm::OR);
                }
            }
            mapping_location(b, v.slot, &[*key_addr], &None);
            b.emit(asm::SSTORE);
            b.emit(asm::STOP);
        }
        Kind::Scaled { width, factor } => {
            value(b, v, 0, false);
            b.push(mask(*width));
            b.emit(asm::AND);
            b.push(*factor);
            b.emit(asm::MUL);
            b.push(v.slot);
            b.emit(asm::SSTORE);
            b.emit(asm::STOP);
        }
        Kind::Plain => {
            value(b, v, 0, false);
            b.push(v.slot);
            b.emit(asm::SSTORE);
            b.emit(asm::STOP);
        }
        Kind::Addr => {
            value(b, v, 0, true);
            b.push(v.slot);
            b.emit(asm::SSTORE);
            b.emit(asm::STOP);
        }
        Kind::Mapping { keys, value_addr, const_key } => {
            value(b, v, keys.len(), *value_addr);
            mapping_location(b, v.slot, keys, const_key);
            b.emit(asm::SSTORE);
            b.emit(asm::STOP);
        }
        Kind::DynArray { prefolded } => {
            value(b, v, 1, false);
            array_location(b, v.slot, *prefolded);
            b.emit(asm::SSTORE);
            b.emit(asm::STOP);
        }
        Kind::Packed { fields, whole, .. } if *whole != 0 => {
            // f0 | f1 * 2^o1 | ...: every field from its own argument
            for (i, (o, w)) in fields.iter().enumerate() {
                value(b, v, i, false);
                b.push(mask(*w));
                b.emit(asm::AND);
                if *o > 0 {
                    b.push(W::pow2(*o as u32));
                    b.emit(asm::MUL);
                }
                if i > 0 {
                    // OR records (top, next): without the swap the accumulated chain is the right operand
                    if *whole == 2 {
                        b.emit(asm::SWAP1);
                    }
                    b.emit(asm::OR);
                }
            }
            b.push(v.slot);
            b.emit(asm::SSTORE);
            b.emit(asm::STOP);
        }
        Kind::Packed { fields, use_shifts, .. } => {
            let (o, w) = fields[field % fields.len()];
            // (value & mask) * 2^o
            value(b, v, 0, false);
            b.push(mask(w));
            b.emit(asm::AND);
            // writes use the power-of-two multiply the lifting passes document (`mul_shifted`);
            // `use_shifts` selects SHR instead of DIV on the read side only
            let _ = use_shifts;
            if o > 0 {
                b.push(W::pow2(o as u32));
                b.emit(asm::MUL);
            }
            // | (sload(slot) & ~(mask << o))
            b.push(v.slot);
            b.emit(asm::SLOAD);
            b.push(mask(w).shl(W::from_u64(o as u64)).not());
            b.emit(asm::AND);
            b.emit(asm::OR);
            b.push(v.slot);
            b.emit(asm::SSTORE);
            b.emit(asm::STOP);
        }
    }
}

#[derive(Clone, Debug)]
pub struct Branch {
    pub var:   usize,
    pub write: bool,
    pub field: usize,
}

pub fn branches(t: &Truth) -> Vec<Branch> {
    let mut out = vec![];
    for (i, v) in t.vars.iter().enumerate() {
        let (nfields, whole) = match &v.kind {
            Kind::Packed { fields, whole, .. } => (fields.len(), *whole != 0),
            Kind::MappingStruct { fields, .. } => (fields.len(), true),
            _ => (1, false),
        };
        for f in 0..nfields {
            if v.read {
                out.push(Branch {
                    var:   i,
                    write: false,
                    field: f,
                });
            }
            if v.write && (!whole || f == 0) {
                out.push(Branch {
                    var:   i,
                    write: true,
                    field: f,
                });
            }
        }
    }
    out
}

/// Compile the ground truth. `base_selector` keeps selectors of two fragments apart.
pub fn compile(t: &Truth, base_selector: u32) -> Vec<Ins> {
    let mut b = B::new();
    compile_into(&mut b, t, base_selector);
    b.ins
}

pub fn compile_into(b: &mut B, t: &Truth, base_selector: u32) {
    let br = branches(t);
    let labels: Vec<usize> = br.iter().map(|_| b.label()).collect();
    // selector
    b.push(W::ZERO);
    b.emit(asm::CALLDATALOAD);
    b.push(W::from_u64(0xe0));
    b.emit(asm::SHR);
    let order: Vec<usize> = match t.dispatcher {
        2 => (0..br.len()).rev().collect(),
        _ => (0..br.len()).collect(),
    };
    if t.dispatcher == 1 && br.len() >= 4 {
        // binary split on the selector: sel < pivot ? left : right
        let mid = br.len() / 2;
        let right = b.label();
        b.emit(asm::DUP1);
        b.push(W::from_u64(base_selector as u64 + mid as u64));
        b.emit(asm::SWAP1);
        b.emit(asm::LT); // sel < pivot
        b.emit(asm::ISZERO);
        b.push_label(right);
        b.emit(asm::JUMPI);
        for i in 0..mid {
            b.emit(asm::DUP1);
            b.push(W::from_u64(base_selector as u64 + i as u64));
            b.emit(asm::EQ);
            b.push_label(labels[i]);
            b.emit(asm::JUMPI);
        }
        b.emit(asm::STOP);
        b.place(right);
        for i in mid..br.len() {
            b.emit(asm::DUP1);
            b.push(W::from_u64(base_selector as u64 + i as u64));
            b.emit(asm::EQ);
            b.push_label(labels[i]);
            b.emit(asm::JUMPI);
        }
        b.emit(asm::STOP);
    } else {
        for i in order {
            b.emit(asm::DUP1);
            b.push(W::from_u64(base_selector as u64 + i as u64));
            b.emit(asm::EQ);
            b.push_label(labels[i]);
            b.emit(asm::JUMPI);
        }
        b.emit(asm::STOP);
    }
    for (i, x) in br.iter().enumerate() {
        b.place(labels[i]);
        b.depth = 1; // the selector
        let v = &t.vars[x.var];
        if x.write {
            emit_write(b, v, x.field);
        } else {
            emit_read(b, v, x.field);
        }
    }
}

//! The committed snapshot of real contracts (see tools/mkcorpus.py).

use crate::core::verif_root;
use std::sync::OnceLock;

pub fn corpus() -> &'static Vec<(String, Vec<u8>)> {
    static C: OnceLock<Vec<(String, Vec<u8>)>> = OnceLock::new();
    C.get_or_init(|| {
        let dir = verif_root().join("corpus");
        let mut out = vec![];
        let mut paths: Vec<_> = std::fs::read_dir(&dir)
            .map(|rd| rd.filter_map(|e| e.ok()).map(|e| e.path()).collect())
            .unwrap_or_default();
        paths.sort();
        for p in paths {
            if p.extension().map(|e| e == "hex").unwrap_or(false) {
                let s = std::fs::read_to_string(&p).unwrap_or_default();
                if let Ok(b) = hex::decode(s.trim()) {
                    if !b.is_empty() {
                        out.push((p.file_stem().unwrap().to_string_lossy().to_string(), b));
                    }
                }
            }
        }
        out.sort_by_key(|(_, b)| b.len());
        out
    })
}

/// contracts of at most `max` bytes
pub fn small(max: usize) -> Vec<&'static (String, Vec<u8>)> {
    corpus().iter().filter(|(_, b)| b.len() <= max).collect()
}

//! Reference decoder: the "walk, skip push data" rule, and the opcode table of the Shanghai EVM.

#[derive(Clone, Copy, Debug, PartialEq, Eq)]
pub enum Kind {
    /// an instruction starts here
    Start,
    /// immediate data of the PUSH that starts at `.0`
    PushData(usize),
}

pub fn classify(code: &[u8]) -> Vec<Kind> {
    let mut out = Vec::with_capacity(code.len());
    let mut i = 0;
    while i < code.len() {
        out.push(Kind::Start);
        let b = code[i];
        let n = push_len(b);
        let start = i;
        i += 1;
        for _ in 0..n {
            if i < code.len() {
                out.push(Kind::PushData(start));
                i += 1;
            }
        }
    }
    out
}

pub fn push_len(b: u8) -> usize {
    if (0x60..=0x7f).contains(&b) {
        (b - 0x5f) as usize
    } else {
        0
    }
}

/// Opcodes assigned in the Shanghai fork (what the subject models).
pub fn assigned(b: u8) -> bool {
    matches!(b,
        0x00..=0x0b | 0x10..=0x1d | 0x20 | 0x30..=0x48 | 0x50..=0x5b | 0x5f..=0x9f | 0xa0..=0xa4
        | 0xf0..=0xf5 | 0xfa | 0xfd | 0xfe | 0xff)
}

/// (pops, pushes) for assigned opcodes
pub fn stack_io(b: u8) -> (usize, usize) {
    match b {
        0x00 => (0, 0),
        0x01..=0x07 => (2, 1),
        0x08 | 0x09 => (3, 1),
        0x0a | 0x0b => (2, 1),
        0x10..=0x14 => (2, 1),
        0x15 => (1, 1),
        0x16..=0x18 => (2, 1),
        0x19 => (1, 1),
        0x1a..=0x1d => (2, 1),
        0x20 => (2, 1),
        0x30 => (0, 1),
        0x31 => (1, 1),
        0x32..=0x34 => (0, 1),
        0x35 => (1, 1),
        0x36 => (0, 1),
        0x37 => (3, 0),
        0x38 => (0, 1),
        0x39 => (3, 0),
        0x3a => (0, 1),
        0x3b => (1, 1),
        0x3c => (4, 0),
        0x3d => (0, 1),
        0x3e => (3, 0),
        0x3f | 0x40 => (1, 1),
        0x41..=0x48 => (0, 1),
        0x50 => (1, 0),
        0x51 => (1, 1),
        0x52 | 0x53 => (2, 0),
        0x54 => (1, 1),
        0x55 => (2, 0),
        0x56 => (1, 0),
        0x57 => (2, 0),
        0x58..=0x5a => (0, 1),
        0x5b => (0, 0),
        0x5f..=0x7f => (0, 1),
        0x80..=0x8f => ((b - 0x7f) as usize, (b - 0x7f) as usize + 1),
        0x90..=0x9f => ((b - 0x8f) as usize + 1, (b - 0x8f) as usize + 1),
        0xa0..=0xa4 => ((b - 0xa0) as usize + 2, 0),
        0xf0 => (3, 1),
        0xf1 | 0xf2 => (7, 1),
        0xf3 => (2, 0),
        0xf4 => (6, 1),
        0xf5 => (4, 1),
        0xfa => (6, 1),
        0xfd => (2, 0),
        0xff => (1, 0),
        _ => (0, 0),
    }
}

/// Ends the path in the EVM (STOP, RETURN, REVERT, SELFDESTRUCT, INVALID, unassigned)
pub fn halts(b: u8) -> bool {
    matches!(b, 0x00 | 0xf3 | 0xfd | 0xff | 0xfe) || !assigned(b)
}

fn main() {
    vcheck::runner::main();
}

//! A mirror AST of the subject's symbolic values, an independent evaluator and the reference
//! constant folder.

use crate::{
    refword::{keccak_words, W},
    subj::{from_kw, kw},
};
use serde::{Deserialize, Serialize};
use std::sync::Arc;
use storage_layout_extractor::vm::value::{Provenance, RuntimeBoxedVal, RSV, RSVD};

#[derive(Clone, Copy, Debug, PartialEq, Eq, Hash, Serialize, Deserialize)]
pub enum Op2 {
    Add,
    Mul,
    Sub,
    Div,
    SDiv,
    Mod,
    SMod,
    Exp,
    Lt,
    Gt,
    SLt,
    SGt,
    Eq,
    And,
    Or,
    Xor,
    Shl,
    Shr,
    Sar,
    /// not foldable by the subject; kept to test "constants below a non-foldable operator"
    SignExtend,
}

pub const FOLDABLE_OP2: [Op2; 19] = [
    Op2::Add,
    Op2::Mul,
    Op2::Sub,
    Op2::Div,
    Op2::SDiv,
    Op2::Mod,
    Op2::SMod,
    Op2::Exp,
    Op2::Lt,
    Op2::Gt,
    Op2::SLt,
    Op2::SGt,
    Op2::Eq,
    Op2::And,
    Op2::Or,
    Op2::Xor,
    Op2::Shl,
    Op2::Shr,
    Op2::Sar,
];

#[derive(Clone, Copy, Debug, PartialEq, Eq, Hash, Serialize, Deserialize)]
pub enum Op1 {
    IsZero,
    Not,
}

/// Mirror of `SymbolicValueData`. For binary operators the two children are the variant's fields
/// in declaration order (e.g. `Divide { dividend, divisor }`, `LeftShift { shift, value }`,
/// `SignExtend { size, value }`, `Exp { value, exponent }`).
#[derive(Clone, Debug, PartialEq, Eq, Hash, Serialize, Deserialize)]
pub enum E {
    Const(W),
    /// an opaque leaf, named ("caller", "callvalue", "value:<uuid>", ...)
    Leaf(String),
    Op2(Op2, Box<E>, Box<E>),
    Op1(Op1, Box<E>),
    Sha3(Box<E>),
    Concat(Vec<E>),
    SLoad(Box<E>, Box<E>),
    Unwritten(Box<E>),
    /// any other variant: name + children in `children()` order
    Other(String, Vec<E>),
}

impl E {
    pub fn c(w: W) -> E {
        E::Const(w)
    }
    pub fn leaf(s: &str) -> E {
        E::Leaf(s.to_string())
    }
    pub fn op2(o: Op2, a: E, b: E) -> E {
        E::Op2(o, Box::new(a), Box::new(b))
    }
    pub fn op1(o: Op1, a: E) -> E {
        E::Op1(o, Box::new(a))
    }
    pub fn is_const(&self) -> bool {
        matches!(self, E::Const(_))
    }
    pub fn as_const(&self) -> Option<W> {
        match self {
            E::Const(w) => Some(*w),
            _ => None,
        }
    }
    pub fn node_count(&self) -> usize {
        1 + match self {
            E::Const(_) | E::Leaf(_) => 0,
            E::Op2(_, a, b) | E::SLoad(a, b) => a.node_count() + b.node_count(),
            E::Op1(_, a) | E::Sha3(a) | E::Unwritten(a) => a.node_count(),
            E::Concat(v) | E::Other(_, v) => v.iter().map(|e| e.node_count()).sum(),
        }
    }
    pub fn depth(&self) -> usize {
        1 + match self {
            E::Const(_) | E::Leaf(_) => 0,
            E::Op2(_, a, b) | E::SLoad(a, b) => a.depth().max(b.depth()),
            E::Op1(_, a) | E::Sha3(a) | E::Unwritten(a) => a.depth(),
            E::Concat(v) | E::Other(_, v) => v.iter().map(|e| e.depth()).max().unwrap_or(0),
        }
    }
    pub fn has_leaf(&self) -> bool {
        match self {
            E::Const(_) => false,
            E::Leaf(_) => true,
            E::Op2(_, a, b) | E::SLoad(a, b) => a.has_leaf() || b.has_leaf(),
            E::Op1(_, a) | E::Sha3(a) | E::Unwritten(a) => a.has_leaf(),
            E::Concat(v) => v.iter().any(|e| e.has_leaf()),
            E::Other(_, _) => true,
        }
    }
}

pub fn apply2(o: Op2, a: W, b: W) -> W {
    match o {
        Op2::Add => a.add(b),
        Op2::Mul => a.mul(b),
        Op2::Sub => a.sub(b),
        Op2::Div => a.div(b),
        Op2::SDiv => a.sdiv(b),
        Op2::Mod => a.rem(b),
        Op2::SMod => a.smod(b),
        Op2::Exp => a.exp(b),
        Op2::Lt => W::from_bool(a.ult(b)),
        Op2::Gt => W::from_bool(a.ugt(b)),
        Op2::SLt => W::from_bool(a.slt(b)),
        Op2::SGt => W::from_bool(a.sgt(b)),
        Op2::Eq => W::from_bool(a == b),
        Op2::And => a.and(b),
        Op2::Or => a.or(b),
        Op2::Xor => a.xor(b),
        // fields: (shift, value)
        Op2::Shl => b.shl(a),
        Op2::Shr => b.shr(a),
        Op2::Sar => b.sar(a),
        // fields: (size, value): size is the byte index of the sign byte, as documented
        Op2::SignExtend => W::signextend(a, b),
    }
}

pub fn apply1(o: Op1, a: W) -> W {
    match o {
        Op1::IsZero => W::from_bool(a.is_zero()),
        Op1::Not => a.not(),
    }
}

/// Valuation of opaque leaves: a deterministic word per (seed, leaf name).
#[derive(Clone, Copy, Debug)]
pub struct Valuation(pub u64);

impl Valuation {
    pub fn of(&self, name: &str) -> W {
        let h = crate::core::fnv64(name.as_bytes()) ^ self.0.wrapping_mul(0x9e3779b97f4a7c15);
        let mut st = h;
        let mut next = || {
            st = st.wrapping_add(0x9e3779b97f4a7c15);
            let mut z = st;
            z = (z ^ (z >> 30)).wrapping_mul(0xbf58476d1ce4e5b9);
            z = (z ^ (z >> 27)).wrapping_mul(0x94d049bb133111eb);
            z ^ (z >> 31)
        };
        let w = W([next(), next(), next(), next()]);
        // a third of the valuations are small / boundary-ish so that comparisons and shifts bite
        match self.0 % 3 {
            0 => w,
            1 => W::from_u64(w.0[0] % 300),
            _ => {
                let k = (w.0[0] % 256) as u32;
                W::pow2(k).sub(W::from_u64(w.0[1] % 2))
            }
        }
    }
}

/// Evaluate; `None` when the tree contains a node outside the evaluator's domain.
pub fn eval(e: &E, v: &Valuation) -> Option<W> {
    Some(match e {
        E::Const(w) => *w,
        E::Leaf(n) => v.of(n),
        E::Op2(o, a, b) => apply2(*o, eval(a, v)?, eval(b, v)?),
        E::Op1(o, a) => apply1(*o, eval(a, v)?),
        E::Sha3(d) => match &**d {
            E::Concat(ws) => {
                let words: Option<Vec<W>> = ws.iter().map(|w| eval(w, v)).collect();
                keccak_words(&words?)
            }
            _ => return None,
        },
        E::SLoad(_, value) => eval(value, v)?,
        E::Unwritten(_) => W::ZERO,
        E::Concat(_) | E::Other(_, _) => return None,
    })
}

/// Reference folder: every maximal all-constant sub-tree over the foldable operators is replaced by
/// its value; every other node is kept as the same variant with the same children in place.
pub fn ref_fold(e: &E) -> E {
    match e {
        E::Const(_) | E::Leaf(_) => e.clone(),
        E::Op2(o, a, b) => {
            let (fa, fb) = (ref_fold(a), ref_fold(b));
            if *o != Op2::SignExtend {
                if let (Some(x), Some(y)) = (fa.as_const(), fb.as_const()) {
                    return E::Const(apply2(*o, x, y));
                }
            }
            E::op2(*o, fa, fb)
        }
        E::Op1(o, a) => {
            let fa = ref_fold(a);
            match fa.as_const() {
                Some(x) => E::Const(apply1(*o, x)),
                None => E::op1(*o, fa),
            }
        }
        E::Sha3(a) => E::Sha3(Box::new(ref_fold(a))),
        E::Unwritten(a) => E::Unwritten(Box::new(ref_fold(a))),
        E::SLoad(a, b) => E::SLoad(Box::new(ref_fold(a)), Box::new(ref_fold(b))),
        E::Concat(v) => E::Concat(v.iter().map(ref_fold).collect()),
        E::Other(n, v) => E::Other(n.clone(), v.iter().map(ref_fold).collect()),
    }
}

// ------------------------------------------------------------------------------------------------
// Conversions
// ------------------------------------------------------------------------------------------------

/// Subject value -> mirror AST (total).
pub fn to_e(v: &RuntimeBoxedVal) -> E {
    let b = |x: &RuntimeBoxedVal| Box::new(to_e(x));
    match v.data() {
        RSVD::KnownData { value } => E::Const(from_kw(value)),
        RSVD::Value { id } => E::Leaf(format!("value:{id}")),
        RSVD::Add { left, right } => E::Op2(Op2::Add, b(left), b(right)),
        RSVD::Multiply { left, right } => E::Op2(Op2::Mul, b(left), b(right)),
        RSVD::Subtract { left, right } => E::Op2(Op2::Sub, b(left), b(right)),
        RSVD::Divide { dividend, divisor } => E::Op2(Op2::Div, b(dividend), b(divisor)),
        RSVD::SignedDivide { dividend, divisor } => E::Op2(Op2::SDiv, b(dividend), b(divisor)),
        RSVD::Modulo { dividend, divisor } => E::Op2(Op2::Mod, b(dividend), b(divisor)),
        RSVD::SignedModulo { dividend, divisor } => E::Op2(Op2::SMod, b(dividend), b(divisor)),
        RSVD::Exp { value, exponent } => E::Op2(Op2::Exp, b(value), b(exponent)),
        RSVD::SignExtend { size, value } => E::Op2(Op2::SignExtend, b(size), b(value)),
        RSVD::LessThan { left, right } => E::Op2(Op2::Lt, b(left), b(right)),
        RSVD::GreaterThan { left, right } => E::Op2(Op2::Gt, b(left), b(right)),
        RSVD::SignedLessThan { left, right } => E::Op2(Op2::SLt, b(left), b(right)),
        RSVD::SignedGreaterThan { left, right } => E::Op2(Op2::SGt, b(left), b(right)),
        RSVD::Equals { left, right } => E::Op2(Op2::Eq, b(left), b(right)),
        RSVD::And { left, right } => E::Op2(Op2::And, b(left), b(right)),
        RSVD::Or { left, right } => E::Op2(Op2::Or, b(left), b(right)),
        RSVD::Xor { left, right } => E::Op2(Op2::Xor, b(left), b(right)),
        RSVD::LeftShift { shift, value } => E::Op2(Op2::Shl, b(shift), b(value)),
        RSVD::RightShift { shift, value } => E::Op2(Op2::Shr, b(shift), b(value)),
        RSVD::ArithmeticRightShift { shift, value } => E::Op2(Op2::Sar, b(shift), b(value)),
        RSVD::IsZero { number } => E::Op1(Op1::IsZero, b(number)),
        RSVD::Not { value } => E::Op1(Op1::Not, b(value)),
        RSVD::Sha3 { data } => E::Sha3(b(data)),
        RSVD::Concat { values } => E::Concat(values.iter().map(to_e).collect()),
        RSVD::SLoad { key, value } => E::SLoad(b(key), b(value)),
        RSVD::UnwrittenStorageValue { key } => E::Unwritten(b(key)),
        RSVD::Address => E::leaf("address"),
        RSVD::Origin => E::leaf("origin"),
        RSVD::Caller => E::leaf("caller"),
        RSVD::CallValue => E::leaf("callvalue"),
        RSVD::GasPrice => E::leaf("gasprice"),
        RSVD::CoinBase => E::leaf("coinbase"),
        RSVD::BlockTimestamp => E::leaf("timestamp"),
        RSVD::BlockNumber => E::leaf("number"),
        RSVD::Prevrandao => E::leaf("prevrandao"),
        RSVD::GasLimit => E::leaf("gaslimit"),
        RSVD::ChainId => E::leaf("chainid"),
        RSVD::SelfBalance => E::leaf("selfbalance"),
        RSVD::BaseFee => E::leaf("basefee"),
        RSVD::Gas => E::leaf("gas"),
        RSVD::CallDataSize => E::leaf("calldatasize"),
        other => {
            let name = format!("{other:?}");
            let name = name
                .split(|c: char| !(c.is_alphanumeric() || c == '_'))
                .next()
                .unwrap_or("?")
                .to_string();
            E::Other(name, v.children().iter().map(to_e).collect())
        }
    }
}

fn synth(d: RSVD) -> RuntimeBoxedVal {
    RSV::new(0, d, Provenance::Synthetic, None)
}

/// Mirror AST -> subject value (for the variants the generators produce).
pub fn from_e(e: &E) -> RuntimeBoxedVal {
    let f = |x: &E| from_e(x);
    synth(match e {
        E::Const(w) => RSVD::KnownData { value: kw(*w) },
        E::Leaf(n) => match n.as_str() {
            "address" => RSVD::Address,
            "origin" => RSVD::Origin,
            "caller" => RSVD::Caller,
            "callvalue" => RSVD::CallValue,
            "gasprice" => RSVD::GasPrice,
            "coinbase" => RSVD::CoinBase,
            "timestamp" => RSVD::BlockTimestamp,
            "number" => RSVD::BlockNumber,
            "prevrandao" => RSVD::Prevrandao,
            "gaslimit" => RSVD::GasLimit,
            "chainid" => RSVD::ChainId,
            "selfbalance" => RSVD::SelfBalance,
            "basefee" => RSVD::BaseFee,
            "gas" => RSVD::Gas,
            "calldatasize" => RSVD::CallDataSize,
            other => {
                // "value:<uuid>" — parse when possible, otherwise derive a stable uuid from the name
                let id = other
                    .strip_prefix("value:")
                    .and_then(|s| uuid::Uuid::parse_str(s).ok())
                    .unwrap_or_else(|| {
                        let h = crate::core::fnv64(other.as_bytes());
                        uuid::Uuid::from_u128(((h as u128) << 64) | (!h) as u128)
                    });
                RSVD::Value { id }
            }
        },
        E::Op2(o, a, b) => {
            let (a, b) = (f(a), f(b));
            match o {
                Op2::Add => RSVD::Add { left: a, right: b },
                Op2::Mul => RSVD::Multiply { left: a, right: b },
                Op2::Sub => RSVD::Subtract { left: a, right: b },
                Op2::Div => RSVD::Divide { dividend: a, divisor: b },
                Op2::SDiv => RSVD::SignedDivide { dividend: a, divisor: b },
                Op2::Mod => RSVD::Modulo { dividend: a, divisor: b },
                Op2::SMod => RSVD::SignedModulo { dividend: a, divisor: b },
                Op2::Exp => RSVD::Exp { value: a, exponent: b },
                Op2::Lt => RSVD::LessThan { left: a, right: b },
                Op2::Gt => RSVD::GreaterThan { left: a, right: b },
                Op2::SLt => RSVD::SignedLessThan { left: a, right: b },
                Op2::SGt => RSVD::SignedGreaterThan { left: a, right: b },
                Op2::Eq => RSVD::Equals { left: a, right: b },
                Op2::And => RSVD::And { left: a, right: b },
                Op2::Or => RSVD::Or { left: a, right: b },
                Op2::Xor => RSVD::Xor { left: a, right: b },
                Op2::Shl => RSVD::LeftShift { shift: a, value: b },
                Op2::Shr => RSVD::RightShift { shift: a, value: b },
                Op2::Sar => RSVD::ArithmeticRightShift { shift: a, value: b },
                Op2::SignExtend => RSVD::SignExtend { size: a, value: b },
            }
        }
        E::Op1(Op1::IsZero, a) => RSVD::IsZero { number: f(a) },
        E::Op1(Op1::Not, a) => RSVD::Not { value: f(a) },
        E::Sha3(a) => RSVD::Sha3 { data: f(a) },
        E::Concat(v) => RSVD::Concat {
            values: v.iter().map(from_e).collect(),
        },
        E::SLoad(k, v) => RSVD::SLoad { key: f(k), value: f(v) },
        E::Unwritten(k) => RSVD::UnwrittenStorageValue { key: f(k) },
        E::Other(name, ch) => match (name.as_str(), ch.as_slice()) {
            ("Balance", [a]) => RSVD::Balance { address: f(a) },
            ("ExtCodeSize", [a]) => RSVD::ExtCodeSize { address: f(a) },
            ("ExtCodeHash", [a]) => RSVD::ExtCodeHash { address: f(a) },
            ("BlockHash", [a]) => RSVD::BlockHash { block_number: f(a) },
            ("StorageSlot", [a]) => RSVD::StorageSlot { key: f(a) },
            ("StorageWrite", [k, v]) => RSVD::StorageWrite { key: f(k), value: f(v) },
            ("CodeCopy", [o, n]) => RSVD::CodeCopy { offset: f(o), size: f(n) },
            ("ExtCodeCopy", [a, o, n]) => RSVD::ExtCodeCopy {
                address: f(a),
                offset:  f(o),
                size:    f(n),
            },
            ("ReturnData", [o, n]) => RSVD::ReturnData { offset: f(o), size: f(n) },
            ("Return", [d]) => RSVD::Return { data: f(d) },
            ("Revert", [d]) => RSVD::Revert { data: f(d) },
            ("SelfDestruct", [t]) => RSVD::SelfDestruct { target: f(t) },
            ("Create", [v, d]) => RSVD::Create { value: f(v), data: f(d) },
            ("Create2", [v, d, salt]) => RSVD::Create2 {
                value: f(v),
                data:  f(d),
                salt:  f(salt),
            },
            ("Log", [d, topics @ ..]) => RSVD::Log {
                data:   f(d),
                topics: topics.iter().map(from_e).collect(),
            },
            ("CallWithValue", [g, a, v, d, ro, rs]) => RSVD::CallWithValue {
                gas:           f(g),
                address:       f(a),
                value:         f(v),
                argument_data: f(d),
                ret_offset:    f(ro),
                ret_size:      f(rs),
            },
            ("CallWithoutValue", [g, a, d, ro, rs]) => RSVD::CallWithoutValue {
                gas:           f(g),
                address:       f(a),
                argument_data: f(d),
                ret_offset:    f(ro),
                ret_size:      f(rs),
            },
            ("MappingIndex", [slot, k]) => RSVD::MappingIndex {
                slot:       f(slot),
                key:        f(k),
                projection: None,
            },
            ("DynamicArrayIndex", [slot, i]) => RSVD::DynamicArrayIndex { slot: f(slot), index: f(i) },
            _ => RSVD::Concat {
                values: ch.iter().map(from_e).collect(),
            },
        },
    })
}

/// Recursive node count through `children()` (the oracle for `size()`).
pub fn count_nodes(v: &RuntimeBoxedVal) -> usize {
    1 + v.children().iter().map(count_nodes).sum::<usize>()
}

pub fn arc_ptr(v: &RuntimeBoxedVal) -> usize {
    Arc::as_ptr(v) as usize
}

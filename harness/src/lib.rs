pub mod core;
pub mod corpus;
pub mod decode;
pub mod props;
pub mod refword;
pub mod runner;
pub mod selftest;
pub mod subj;

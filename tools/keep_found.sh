#!/usr/bin/env bash
# tools/keep_found.sh <ID> : copy every newly found failing case of <ID> into replays/<ID>/ under a readable name
ID="$1"; mkdir -p /verif/replays/$ID
for f in /verif/work/found/$ID/*.json; do
  [ -f "$f" ] || continue
  name=$(python3 -c "import json,re,sys; d=json.load(open('$f')); s=re.sub(r'[^A-Za-z0-9]+','-',d['signature'])[:80].strip('-').lower(); print(s)")
  cp "$f" /verif/replays/$ID/$name.json
done
ls /verif/replays/$ID | wc -l

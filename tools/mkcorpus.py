#!/usr/bin/env python3
"""Snapshot the real contracts embedded in /repo/tests and /repo/asset into /verif/corpus/*.hex."""
import json, re, os, glob
out = '/verif/corpus'
n = 0
for p in sorted(glob.glob('/repo/tests/*.rs')):
    s = open(p).read()
    for i, m in enumerate(re.finditer(r'"(?:0x)?([0-9a-fA-F]{200,})"', s)):
        name = os.path.basename(p)[:-3] + (f'_{i}' if i else '')
        open(f'{out}/{name}.hex', 'w').write(m.group(1).lower() + '\n'); n += 1
for p in sorted(glob.glob('/repo/asset/*.json')):
    d = json.load(open(p))
    h = d.get('deployedBytecode', {}).get('object', '')
    h = h[2:] if h.startswith('0x') else h
    if len(h) >= 20:
        open(f'{out}/asset_{os.path.basename(p)[:-5]}.hex', 'w').write(h.lower() + '\n'); n += 1
print(n, 'corpus files')

#!/usr/bin/env bash
# tools/verify_seed.sh <seed-id> <property> <patch.diff> <demo.rs> "<needs>"
# Confirms in a scratch worktree of /repo (HEAD) that the change compiles, passes the whole existing
# suite, and that the demonstration passes without it and fails with it; then files it under
# /verif/seeded/<seed-id>/. The scratch worktree and its build output are removed afterwards.
set -u
ID="$1"; PROP="$2"; PATCH="$(realpath "$3")"; DEMO="$(realpath "$4")"; NEEDS="${5:-}"
WT=/tmp/seedcheck/$ID
export CARGO_NET_OFFLINE=true CARGO_TARGET_DIR=/tmp/seedcheck/target
mkdir -p /tmp/seedcheck
git -C /repo worktree remove --force "$WT" 2>/dev/null
git -C /repo worktree add -q --detach "$WT" HEAD || exit 2
cd "$WT"
cp "$DEMO" tests/seed_demo.rs
clean_demo=$(cargo test --offline --test seed_demo 2>&1 | grep -E "^test result" | tail -1)
git apply "$PATCH" || { echo "PATCH DOES NOT APPLY"; git -C /repo worktree remove --force "$WT"; exit 3; }
mut_demo=$(cargo test --offline --test seed_demo 2>&1 | grep -E "^test result|^error(\[|:) " | grep -v "test failed, to rerun" | tail -1)
mv tests/seed_demo.rs /tmp/seedcheck/$ID.demo.rs
suite=$(cargo test --workspace --no-fail-fast --offline 2>&1 | awk '/^test result/{p+=$4; f+=$6} /^error/{e++} END{print "passed",p,"failed",f,"errors",e+0}')
cd /
git -C /repo worktree remove --force "$WT"
echo "$ID: clean demo: $clean_demo | mutant demo: $mut_demo | suite with mutant: $suite"
ok=1
echo "$clean_demo" | grep -q "ok\." || ok=0
echo "$mut_demo" | grep -q "FAILED" || ok=0
echo "$suite" | grep -q "passed 387 failed 0 errors 0" || ok=0
if [ $ok = 1 ]; then
  D=/verif/seeded/$ID; mkdir -p $D
  cp "$PATCH" $D/patch.diff; cp "$DEMO" $D/demo.rs
  python3 - "$ID" "$PROP" "$NEEDS" "$clean_demo" "$mut_demo" "$suite" <<'PY'
import json, sys, subprocess
id, prop, needs, clean, mut, suite = sys.argv[1:7]
head = subprocess.run(['git','-C','/repo','rev-parse','--short','HEAD'],capture_output=True,text=True).stdout.strip()
json.dump({"id": id, "breaks_property": prop, "needs_to_manifest": needs,
  "confirmed_against_repo_commit": head,
  "what_was_run": {"demo on clean tree": clean, "demo with change": mut, "existing suite with change (cargo test --workspace --no-fail-fast --offline)": suite},
  "detected_by": []}, open(f'/verif/seeded/{id}/meta.json','w'), indent=1)
PY
  echo "KEPT $ID"
else
  echo "REJECTED $ID"
fi

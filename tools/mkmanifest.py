#!/usr/bin/env python3
"""Generate /verif/MANIFEST.json from tools/manifest_checks.json (one entry per claimed property)."""
import json, subprocess
props = [json.loads(l) for l in open('/verif/properties.jsonl')]
checks_src = json.load(open('/verif/tools/manifest_checks.json'))
hook_commits = subprocess.run(['git','-C','/repo','log','--format=%H','--grep=^verif-hooks'],capture_output=True,text=True).stdout.split()
checks = []
na = []
for p in props:
    pid = p['id']
    c = checks_src.get(pid)
    if not c or c.get('not_applicable'):
        na.append({"property_id": pid, "reason": (c or {}).get('not_applicable', 'check not built yet (work in progress); the design in DESIGN.md section 2 applies')})
        continue
    checks.append({
        "property_id": pid,
        "quick_cmd": f"./check {pid} quick",
        "thorough_cmd": f"./check {pid} thorough",
        "evidence_file": f"/verif/evidence/{pid}.json",
        "replay_cmd_template": f"./check {pid} --replay {{path}}",
        "engine": c.get('engine', 'vcheck'),
        "level_claimed": {"category": c['level'], "text": c['text'], "design_ref": f"DESIGN.md section 2, {pid}"},
        "level_note": c['note'],
        "technique": c['technique'] + ('' if pid in ('C13', 'C16') else '; thorough tier adds a libFuzzer (coverage-guided) stage over the same generator and oracle'),
    })
m = {
    "version": 1,
    "setup_cmd": "./check build && ./check selftest",
    "hooks": {
        "guard": "verif-hooks (cargo feature of storage-layout-extractor)",
        "enable": "harness/Cargo.toml depends on /repo by path with features = [\"verif-hooks\"]; the hook only acts when a check sets a non-identity order (C02 and the layout-stability pre-checks)",
        "baseline_off_cmd": "cd /repo && cargo test --workspace --no-fail-fast --offline",
        "source_commits": hook_commits,
        "add_only": True,
    },
    "engines": [
        {"name": "vcheck", "path": "/verif/harness", "serves_properties": [c['property_id'] for c in checks],
         "kind_free_text": "Rust binary: proptest 1.11 TestRunner over choice streams (8 sharded child processes), exhaustive enumerators, reference models (256-bit arithmetic, both-branches EVM, union-find/partition, word lattice), replay tier, evidence writer"},
        {"name": "vcheck-fuzz", "path": "/verif/fuzz", "serves_properties": [c['property_id'] for c in checks if c['property_id'] not in ('C13', 'C16')],
         "kind_free_text": "cargo-fuzz / libFuzzer targets (fz_prop: coverage-guided mutation of the choice stream of any property's own generator and oracle; fz_c10, fz_c01: raw contract bytes). Stage of the thorough tier (VCHECK_FUZZ_SECS, default 240 s per property, -fork=8); findings are saved as ordinary replay files and re-checked outside the fuzzer before they are reported"},
    ],
    "checks": checks,
    "not_applicable": na,
    "notes": "Technique family: property-based testing and fuzzing. Each check exits 0/1/2 (2 = inconclusive: build failure, generator-health failure, wall-clock guard). VERIF_SEED selects the proptest streams. Findings and fixes: known_findings.json.",
}
json.dump(m, open('/verif/MANIFEST.json','w'), indent=1)
print(len(checks), 'checks;', len(na), 'not claimed')

#!/usr/bin/env python3
"""Run C02 quick under several seeds on the unchanged tree and add every new order-dependence family
(diagnosed evidence set) to known_findings.json. Used once, by hand, to enumerate the families of the
known merge non-associativity; the check itself never writes this file."""
import json, subprocess, sys, glob, os, shutil
seeds = sys.argv[1:] or ['1']
kf = json.load(open('/verif/known_findings.json'))
have = {k['signature'] for k in kf['known'] if k['property']=='C02'}
for seed in seeds:
    shutil.rmtree('/verif/work/found/C02', ignore_errors=True)
    subprocess.run(['./check','C02','quick'], cwd='/verif', env=dict(os.environ, VERIF_SEED=seed), capture_output=True, text=True)
    new = 0
    for f in glob.glob('/verif/work/found/C02/*.json'):
        d = json.load(open(f))
        sig = d['signature']
        if 'order-dependent evidence:' not in sig or sig in have:
            if sig not in have: print('UNDIAGNOSED', sig)
            continue
        have.add(sig); new += 1
        fam = sig.split('order-dependent evidence:')[1].strip()
        kf['known'].append({"property":"C02","signature":sig,
            "what": f"the layout (or the success of the analysis) depends on hash iteration order because folding the evidence {fam} through unification::merge gives different outcomes in different orders (merge is not associative when dynamic bytes, dynamic arrays or packed encodings absorb other evidence; see the C16 findings)"})
        name = ''.join(c if c.isalnum() else '-' for c in fam).strip('-').lower()[:80]
        os.makedirs('/verif/replays/C02', exist_ok=True)
        shutil.copy(f, f'/verif/replays/C02/{name}.json')
    json.dump(kf, open('/verif/known_findings.json','w'), indent=2)
    print('seed', seed, 'new families', new, 'total', len(have))

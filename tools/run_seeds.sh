#!/usr/bin/env bash
# tools/run_seeds.sh [seed-id ...]
# Runs each seeded change under /verif/seeded against the quick check of the property it breaks (plus any
# checks named in seeded/<id>/also), in a scratch copy of /verif and a scratch worktree of /repo, so that
# /repo itself is never touched. Results go to seeded/<id>/meta.json ("detected_by") and seeded/MATRIX.md.
set -u
S=/tmp/seedrun
rm -rf $S/verif; mkdir -p $S
git -C /repo worktree remove --force $S/repo 2>/dev/null
git -C /repo worktree add -q --detach $S/repo HEAD || exit 2
rsync -a --exclude work --exclude 'harness/target' --exclude .git /verif/ $S/verif/
sed -i "s#path = \"/repo\"#path = \"$S/repo\"#" $S/verif/harness/Cargo.toml
export CARGO_NET_OFFLINE=true CARGO_TARGET_DIR=$S/target VERIF_ROOT=$S/verif
mkdir -p $S/verif/work
seeds=("$@"); [ ${#seeds[@]} -eq 0 ] && seeds=($(ls /verif/seeded | grep -E '^C[0-9]+-[AB]$'))
for id in "${seeds[@]}"; do
  d=/verif/seeded/$id; [ -f $d/patch.diff ] || continue
  prop=${id%%-*}
  checks="$prop"; [ -f $d/also ] && checks="$checks $(cat $d/also)"
  git -C $S/repo checkout -q -- . ; git -C $S/repo apply $d/patch.diff || { echo "$id: patch does not apply"; continue; }
  ( cd $S/verif/harness && cargo build --release --quiet 2>/dev/null ) || { echo "$id: build failed"; continue; }
  results=""
  for c in $checks; do
    rm -rf $S/verif/work/found
    out=$( cd $S/verif && timeout 3000 $S/target/release/vcheck run $c quick 2>/dev/null ); rc=$?
    sig=$(echo "$out" | grep -m1 "signature:" | sed 's/^ *signature: //')
    results="$results$c:$rc:$sig|"
    echo "$id $c exit=$rc $sig"
  done
  python3 - "$id" "$results" <<'PY'
import json, sys
id, results = sys.argv[1], sys.argv[2]
p = f'/verif/seeded/{id}/meta.json'
m = json.load(open(p))
det = []
for r in results.strip('|').split('|'):
    if not r: continue
    c, rc, sig = r.split(':', 2)
    det.append({"check": c, "tier": "quick", "exit": int(rc), "detected": rc == '1', "first_signature": sig})
m['detected_by'] = det
json.dump(m, open(p, 'w'), indent=1)
PY
done
git -C $S/repo checkout -q -- . ; git -C /repo worktree remove --force $S/repo
python3 - <<'PY'
import json, glob, os
rows = []
for p in sorted(glob.glob('/verif/seeded/C*-*/meta.json')):
    m = json.load(open(p))
    det = m.get('detected_by') or []
    rows.append((m['id'], m['breaks_property'], ', '.join(f"{d['check']}{'' if d['detected'] else ' (missed)'}" for d in det) or 'not run', m.get('needs_to_manifest','')[:110]))
with open('/verif/seeded/MATRIX.md', 'w') as f:
    f.write('| seed | breaks | quick checks run (detected unless marked) | needs |\n|---|---|---|---|\n')
    for r in rows: f.write('| ' + ' | '.join(r) + ' |\n')
print(len(rows), 'seeds in matrix')
PY
rm -rf $S/target $S/verif
